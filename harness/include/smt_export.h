#pragma once
#define SMT_EXPORT
#define SMT_NO_EXPORT
