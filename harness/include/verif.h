#pragma once
// common declarations for harnesses: symbolic inputs + assert/assume that work both under cbmc (through ll2c) and natively (replay)
#include <cstddef>
extern "C" {
bool nondet_bool() noexcept;
unsigned char nondet_uchar() noexcept;
int nondet_int() noexcept;
unsigned nondet_uint() noexcept;
long nondet_long() noexcept;
void __CPROVER_assume(bool) noexcept;
void __CPROVER_assert(bool, const char *) noexcept;
}
// shape parameters: concrete per cbmc query (the driver passes -DVERIF_PARAM_k=value to cbmc, so one translation
// serves every shape and symbolic execution sees constants); opaque to clang so the code stays generic.
extern "C" int verif_param(int k) noexcept;
#define PARAM(k) verif_param(k)
#define ASSUME(c) __CPROVER_assume(c)
#define CHECK(c, msg) __CPROVER_assert((c), msg)
// vacuity guard: every harness ends with WITNESS_POINT(); cbmc must report the assertion it expands to as FAILED
// (= some execution satisfies all assumptions and reaches the end of the harness).  Natively it is a no-op.
extern "C" void __verif_witness() noexcept;
#define WITNESS_POINT() __verif_witness()
