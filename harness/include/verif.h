#pragma once
// common declarations for harnesses: symbolic inputs + assert/assume that work both under cbmc (through ll2c) and natively (replay)
#include <cstddef>
extern "C" {
bool nondet_bool();
unsigned char nondet_uchar();
int nondet_int();
unsigned nondet_uint();
long nondet_long();
void __CPROVER_assume(bool);
void __CPROVER_assert(bool, const char *);
}
#define ASSUME(c) __CPROVER_assume(c)
#define CHECK(c, msg) __CPROVER_assert((c), msg)
#ifdef WITNESS
#define WITNESS_POINT() __CPROVER_assert(false, "WITNESS")
#else
#define WITNESS_POINT() ((void)0)
#endif
