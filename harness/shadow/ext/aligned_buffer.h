// Verification shadow of libstdc++'s <ext/aligned_buffer.h> (only on the include path when emitting IR for cbmc).
// The library stores container elements in raw `unsigned char[sizeof(T)]` buffers; in LLVM IR these become byte
// arrays that are read and written through casts, which a bounded model checker can only represent with
// byte_extract/byte_update terms (pointers and characters stop being constants and every later branch on them
// becomes symbolic).  Here the buffer is an anonymous union holding a T, so the IR is typed.  Size, alignment and the
// lifetime protocol (no construction / destruction by the buffer itself) are unchanged.
#ifndef _ALIGNED_BUFFER_H
#define _ALIGNED_BUFFER_H 1
#pragma GCC system_header
#include <type_traits>
#include <cstddef>
namespace __gnu_cxx
{
  template<typename _Tp>
    struct __aligned_membuf
    {
      union { _Tp _M_val; };
      __aligned_membuf() noexcept { }
      __aligned_membuf(std::nullptr_t) noexcept { }
      ~__aligned_membuf() { }
      void* _M_addr() noexcept { return static_cast<void*>(const_cast<typename std::remove_const<_Tp>::type*>(std::__addressof(_M_val))); }
      const void* _M_addr() const noexcept { return static_cast<const void*>(std::__addressof(_M_val)); }
      _Tp* _M_ptr() noexcept { return std::__addressof(_M_val); }
      const _Tp* _M_ptr() const noexcept { return std::__addressof(_M_val); }
    };
  template<typename _Tp>
    struct __aligned_buffer
    {
      union { _Tp _M_val; };
      __aligned_buffer() noexcept { }
      __aligned_buffer(std::nullptr_t) noexcept { }
      ~__aligned_buffer() { }
      void* _M_addr() noexcept { return static_cast<void*>(const_cast<typename std::remove_const<_Tp>::type*>(std::__addressof(_M_val))); }
      const void* _M_addr() const noexcept { return static_cast<const void*>(std::__addressof(_M_val)); }
      _Tp* _M_ptr() noexcept { return std::__addressof(_M_val); }
      const _Tp* _M_ptr() const noexcept { return std::__addressof(_M_val); }
    };
}
#endif
