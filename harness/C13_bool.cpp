// C13 — reified boolean constructs of smt::sat_core are equivalent to the formula they stand for.
//
// shape parameters (concrete per query; the driver enumerates ALL shapes inside the stated bound):
//   P0 OP     0 eq, 1 conj, 2 disj, 3 at-most-one, 4 exactly-one
//   P1 N      number of arguments
//   P2 TWICE  1: build the construct a second time with the arguments reversed (expression cache) and check that too
//   P3..P5    root-level pre-assignment of free variable 1..3: 0 none, 1 true, 2 false
//   P6+2i, P7+2i   variable (0 = the constant-false variable, 1..V = free variables) and sign of argument i
// symbolic (decided by the solver for all values): the total assignments over which "in every model" and
// "excludes no assignment" are quantified.
// Why shapes are concrete: every one of them steers allocation (filtered argument vectors, expression-cache strings);
// with symbolic shapes cbmc's heap model loses constant pointers and no query finishes (measured, see DESIGN.md).
#include "sat_core.h"
#include "clause.h"
#include "verif.h"
using namespace smt;

#define V 3
#define MAXV 16
static int OP;

static inline bool lval(const bool *a, const lit &p) { return sign(p) ? a[variable(p)] : !a[variable(p)]; }


// value of the formula under assignment a.  For the cardinality constructs a repeated argument can be read as one
// literal (set reading) or as two occurrences (multiset reading); the property does not say which, so `weak` selects
// the reading that makes the formula easier to satisfy (set reading for at-most-one, either for exactly-one) and
// `!weak` the one that makes it harder; the checks below only demand what holds under both readings.
static bool formula(const bool *a, const lit *args, int n, bool weak)
{
  int cs = 0, cm = 0;
  for (int i = 0; i < n; i++)
  {
    bool dup = false;
    for (int j = 0; j < i; j++) dup = dup | (args[j] == args[i]);
    bool t = lval(a, args[i]);
    cm += t ? 1 : 0;
    if (!dup) cs += t ? 1 : 0;
  }
  switch (OP)
  {
  case 0: return lval(a, args[0]) == lval(a, args[1]);
  case 1: return cm == n;
  case 2: return cm > 0;
  case 3: return weak ? cs <= 1 : cm <= 1;
  default: return weak ? (cs == 1 || cm == 1) : (cs == 1 && cm == 1);
  }
}

static lit build(sat_core &s, const lit *args, int n, bool reversed)
{
  std::vector<lit> ls;
  for (int i = 0; i < n; i++) ls.push_back(args[reversed ? n - 1 - i : i]);
  switch (OP)
  {
  case 0: return reversed ? s.new_eq(args[1], args[0]) : s.new_eq(args[0], args[1]);
  case 1: return s.new_conj(std::move(ls));
  case 2: return s.new_disj(std::move(ls));
  case 3: return s.new_at_most_one(std::move(ls));
  default: return s.new_exct_one(std::move(ls));
  }
}

// does the total assignment a satisfy everything the network currently holds (root assignments and clauses)?
__attribute__((noinline)) static bool is_model(sat_core &s, const bool *a)
{
  bool ok = true;
  for (size_t v = 0; v < s.assigns.size(); ++v)
    if (s.assigns[v] != Undefined) ok = ok & (a[v] == (s.assigns[v] == True));
  for (auto c : s.constrs)
  {
    clause *cl = static_cast<clause *>(c);
    bool sat = false;
    for (auto &l : cl->lits) sat = sat | lval(a, l);
    ok = ok & sat;
  }
  return ok;
}

extern "C" void h_reify()
{
  OP = PARAM(0);
  const int n = PARAM(1);
  const bool TWICE = PARAM(2) != 0;
  int pp[4] = {2, PARAM(3), PARAM(4), PARAM(5)};
  int av[4] = {PARAM(6), PARAM(8), PARAM(10), PARAM(12)};
  int as[4] = {PARAM(7), PARAM(9), PARAM(11), PARAM(13)};
  sat_core &s = *new sat_core(); // never destroyed: the destructor is not part of the property and costs symbolic-execution time
  var b[V + 1];
  b[0] = FALSE_var;
  for (int i = 1; i <= V; i++) b[i] = s.new_var();
  // root-level pre-assignment
  unsigned char pre[V + 1];
  pre[0] = 2;
  for (int i = 1; i <= V; i++)
  {
    pre[i] = (unsigned char)pp[i];
    if (pre[i] != 0)
    {
      bool ok = s.new_clause({lit(b[i], pre[i] == 1)});
      CHECK(ok, "unit clause on a fresh variable accepted");
    }
  }
  bool pr = s.propagate();
  CHECK(pr, "propagating independent unit clauses succeeds");
  // arguments
  lit args[8];
  for (int i = 0; i < n; i++)
  {
    args[i] = lit(b[av[i]], as[i] != 0);
  }
  const size_t nv0 = s.assigns.size();
  lit r = build(s, args, n, false);
  lit r2 = r;
  if (TWICE) r2 = build(s, args, n, true);
  CHECK(s.assigns.size() <= MAXV, "harness bound on auxiliary variables");

  // (->) in every model of the network the returned literal has the value of the formula
  bool a[MAXV];
  for (int i = 0; i < MAXV; i++) a[i] = nondet_bool();
  if (is_model(s, a))
  {
    bool f = formula(a, args, n, true);
    if (OP <= 2)
      CHECK(lval(a, r) == f, "returned literal equivalent to formula in every model");
    else
      CHECK(!lval(a, r) || f, "returned literal true forces the cardinality constraint");
    if (OP <= 2)
      CHECK(lval(a, r2) == f, "second (cached/reordered) literal equivalent to formula in every model");
    else
      CHECK(!lval(a, r2) || f, "second (cached/reordered) literal true forces the cardinality constraint");
  }

  // (<-) nothing is excluded: every assignment of the original variables that agrees with the pre-assignment extends
  // to a model of the network in which the returned literal has the value of the formula (new variable := that value)
  bool o[MAXV];
  for (int i = 0; i < MAXV; i++) o[i] = nondet_bool();
  bool orig_ok = !o[0];
  for (int i = 1; i <= V; i++)
    if (pre[i] != 0) orig_ok = orig_ok & (o[b[i]] == (pre[i] == 1));
  const int naux = (int)(s.assigns.size() - nv0);
  if (orig_ok && naux <= 4)
  { // the auxiliary variables (at most 4 here; larger encodings are covered by h_grid) are enumerated: there must be an extension that is a
    // model in which the returned literal is true (formula true) / false (formula false)
    bool fw = formula(o, args, n, true), fs = formula(o, args, n, false);
    bool mt = false, mf = false, mt2 = false, mf2 = false;
    for (int e = 0; e < 16; e++)
    {
      if (e >= (1 << naux)) break;
      bool x[MAXV];
      for (size_t v = 0; v < MAXV; v++) x[v] = v < nv0 ? o[v] : (v < nv0 + 4 ? ((e >> (v - nv0)) & 1) != 0 : false);
      const bool im = is_model(s, x);
      mt = mt | (im && lval(x, r)); mf = mf | (im && !lval(x, r));
      mt2 = mt2 | (im && lval(x, r2)); mf2 = mf2 | (im && !lval(x, r2));
    }
    if (fs) CHECK(mt, "an assignment satisfying the formula extends to a model in which the returned literal is true");
    if (!fw) CHECK(mf, "an assignment falsifying the formula extends to a model in which the returned literal is false");
    CHECK(mt || mf, "construction excludes no assignment of the original variables");
    if (fs) CHECK(mt2, "same for the second (cached/reordered) literal, formula true");
    if (!fw) CHECK(mf2, "same for the second (cached/reordered) literal, formula false");
  }
  WITNESS_POINT();
}

// ---------------------------------------------------------------------------------------------------------------
// product (grid) encoding of at-most-one / exactly-one, used for 4 or more arguments: n fresh variables, positive literals.
//   PARAM(0) = OP (3 at-most-one, 4 exactly-one), PARAM(1) = n (4..6)
// (->) for ALL total assignments: a model with the returned literal true has at most / exactly one argument true.
// (<-) for ALL assignments of the n arguments an extension to the auxiliary variables is constructed from the shape of
//      the encoding (row / column selectors of the true argument) and must be a model in which the returned literal has
//      the value of the cardinality formula.
#define MAXW 24
extern "C" void h_grid()
{
  OP = PARAM(0);
  const int n = PARAM(1);
  sat_core &s = *new sat_core();
  lit args[8];
  std::vector<lit> ls;
  for (int i = 0; i < n; i++) { args[i] = lit(s.new_var()); ls.push_back(args[i]); }
  const size_t nv0 = s.assigns.size(); // 1 + n
  const lit r = OP == 3 ? s.new_at_most_one(ls) : s.new_exct_one(ls);
  CHECK(s.assigns.size() <= MAXW, "harness bound on auxiliary variables");
  bool pr = s.propagate();
  CHECK(pr, "building the construct leaves the network consistent");
  bool a[MAXW];
  for (int i = 0; i < MAXW; i++) a[i] = nondet_bool();
  int cnt = 0;
  for (int i = 0; i < n; i++) cnt += lval(a, args[i]) ? 1 : 0;
  if (is_model(s, a)) CHECK(!lval(a, r) || (OP == 3 ? cnt <= 1 : cnt == 1), "returned literal true forces the cardinality constraint (grid encoding)");
  // (<-) construct the extension.  Variables are created in this order: row selectors u_0..u_{ps-1}, column selectors
  // v_0..v_{qs-1}, the at-most-one literal of the rows, the at-most-one literal of the columns, their conjunction.
  int ps = 1; while (ps * ps < n) ps++;
  const int qs = (n + ps - 1) / ps;
  bool o[MAXW];
  for (int i = 0; i < MAXW; i++) o[i] = i < (int)nv0 ? a[i] : false;
  o[0] = false;
  int k = -1, c2 = 0;
  for (int i = 0; i < n; i++) if (o[variable(args[i])]) { c2++; k = i; }
  const bool amo = c2 <= 1;
  for (int i = 0; i < ps; i++) o[nv0 + i] = amo && k >= 0 && i == k / qs;
  for (int j = 0; j < qs; j++) o[nv0 + ps + j] = amo && k >= 0 && j == k % qs;
  // the remaining (reification) variables - at-most-one of the rows, of the columns, their conjunction, and whatever exactly-one adds on top -
  // are enumerated: some extension must be a model in which the returned literal has the value of the (whole) cardinality formula
  const int tail = (int)s.assigns.size() - (int)(nv0 + ps + qs);
  CHECK(tail >= 0 && tail <= 5, "harness bound on reification variables");
  const bool want = OP == 3 ? amo : c2 == 1;
  bool found = false;
  for (int e = 0; e < 32; e++)
  {
    if (e >= (1 << tail)) break;
    for (int t = 0; t < 5; t++) if (nv0 + ps + qs + t < MAXW) o[nv0 + ps + qs + t] = ((e >> t) & 1) != 0;
    found = found | (is_model(s, o) && lval(o, r) == want);
  }
  CHECK(found, "every assignment of the arguments extends to a model in which the returned literal has the value of the cardinality formula (grid encoding excludes nothing)");
  WITNESS_POINT();
}

// ---------------------------------------------------------------------------------------------------------------
// two constructs of the same kind sharing an argument (expression-cache interference): A = op(x, y), B = op(z, y) with either
// argument order for each; both returned literals must have the value of THEIR OWN formula in every model, and A must be
// returned again when requested a second time.
//   PARAM(0) = OP, PARAM(1) = order bits (bit0: A reversed, bit1: B reversed), PARAM(2..5) = signs of x, y (in A), z, y (in B),
//   PARAM(6) = which variable (smallest / middle / largest index) is the shared y
extern "C" void h_pair()
{
  OP = PARAM(0);
  const int ord = PARAM(1);
  sat_core &s = *new sat_core();
  const var v3[3] = {s.new_var(), s.new_var(), s.new_var()};
  const int sh = PARAM(6);                       // which of the three variables (by index order) is the shared one
  const var y = v3[sh], x = v3[(sh + 1) % 3], z = v3[(sh + 2) % 3];
  lit A[2] = {lit(x, PARAM(2) != 0), lit(y, PARAM(3) != 0)};
  lit B[2] = {lit(z, PARAM(4) != 0), lit(y, PARAM(5) != 0)};
  const lit ra = build(s, A, 2, (ord & 1) != 0);
  const lit rb = build(s, B, 2, (ord & 2) != 0);
  const lit ra2 = build(s, A, 2, (ord & 1) != 0);
  CHECK(s.assigns.size() <= MAXV, "harness bound on auxiliary variables");
  bool a[MAXV];
  for (int i = 0; i < MAXV; i++) a[i] = nondet_bool();
  if (is_model(s, a))
  {
    const bool fa = formula(a, A, 2, true), fb = formula(a, B, 2, true);
    if (OP <= 2)
    {
      CHECK(lval(a, ra) == fa, "first construct equivalent to its formula in every model");
      CHECK(lval(a, rb) == fb, "second construct (sharing an argument with the first) equivalent to ITS formula in every model");
      CHECK(lval(a, ra2) == fa, "first construct requested again is still equivalent to its formula");
    }
    else
    {
      CHECK(!lval(a, ra) || fa, "first cardinality literal forces its constraint");
      CHECK(!lval(a, rb) || fb, "second cardinality literal (sharing an argument) forces ITS constraint");
      CHECK(!lval(a, ra2) || fa, "first cardinality literal requested again forces its constraint");
    }
  }
  WITNESS_POINT();
}

// ---------------------------------------------------------------------------------------------------------------
// two constructs of DIFFERENT kinds over the SAME arguments (expression-cache interference across kinds, reuse of one construct inside
// another): A = opA(args), B = opB(args) (B optionally with reversed argument order), then A requested again.
//   (->) in every model each returned literal has the value of ITS OWN formula (cardinality kinds: true forces the constraint)
//   (<-) nothing is excluded: every assignment of the argument variables extends (over the auxiliary variables, enumerated) to a model in
//        which BOTH returned literals have the value of their own formula
//   PARAM(0) = opA, PARAM(1) = opB, PARAM(2) = n (2..3), PARAM(3) = B reversed, PARAM(4..4+n) = signs
#define MAXAUX 6
extern "C" void h_cross()
{
  const int opa = PARAM(0), opb = PARAM(1), n = PARAM(2);
  const bool rev = PARAM(3) != 0;
  sat_core &s = *new sat_core();
  lit args[3];
  for (int i = 0; i < n; i++) args[i] = lit(s.new_var(), PARAM(4 + i) != 0);
  const size_t nv0 = s.assigns.size();
  OP = opa; const lit ra = build(s, args, n, false);
  OP = opb; const lit rb = build(s, args, n, rev);
  OP = opa; const lit ra2 = build(s, args, n, false);
  bool pr = s.propagate();
  CHECK(pr, "building the constructs leaves the network consistent");
  CHECK(s.assigns.size() <= nv0 + MAXAUX && s.assigns.size() <= MAXV, "harness bound on auxiliary variables");
  const int naux = (int)(s.assigns.size() - nv0);
  bool a[MAXV];
  for (int i = 0; i < MAXV; i++) a[i] = nondet_bool();
  OP = opa; const bool fa = formula(a, args, n, true);
  OP = opb; const bool fb = formula(a, args, n, true);
  if (is_model(s, a))
  {
    if (opa <= 2) { CHECK(lval(a, ra) == fa, "first construct equivalent to its formula in every model (other kind built over the same arguments)"); CHECK(lval(a, ra2) == fa, "first construct requested again equivalent to its formula"); }
    else { CHECK(!lval(a, ra) || fa, "first cardinality literal forces its constraint (other kind built over the same arguments)"); CHECK(!lval(a, ra2) || fa, "first cardinality literal requested again forces its constraint"); }
    if (opb <= 2) CHECK(lval(a, rb) == fb, "second construct (other kind, same arguments) equivalent to ITS formula in every model");
    else CHECK(!lval(a, rb) || fb, "second cardinality literal (other kind, same arguments) forces ITS constraint");
  }
  // (<-): a[0..nv0) is an arbitrary assignment of the argument variables (a[0], the constant variable, must be false)
  bool found = false;
  for (int e = 0; e < (1 << MAXAUX); e++)
  {
    if (e >= (1 << naux)) break;
    bool o[MAXV];
    for (size_t v = 0; v < MAXV; v++) o[v] = v < nv0 ? a[v] : (v < nv0 + MAXAUX ? ((e >> (v - nv0)) & 1) != 0 : false);
    found = found | (is_model(s, o) && lval(o, ra) == fa && lval(o, rb) == fb && lval(o, ra2) == fa);
  }
  if (!a[0]) CHECK(found, "every assignment of the arguments extends to a model in which both constructs have the value of their own formula");
  WITNESS_POINT();
}
