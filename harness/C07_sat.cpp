// C07 / C08 (propositional part) — smt::sat_core only infers what is entailed, and undoing decisions restores it.
//
// A scenario (concrete, enumerated by the driver) is a clause set over V free variables followed by a history of API calls;
// after every call the harness compares the network with the reference semantics "all total assignments", which is where the
// solver comes in: the total assignment `a` is symbolic, so every check below is decided for ALL assignments at once.
//
// batch protocol: PARAM(0) = number of scenarios; each scenario = its length, then
//   V, NC, NC x (len, len x (var, sign)), H, H x (op, var1, sign1, var2, sign2)
//   op: 0 assume(l1)  1 pop()  2 propagate()  3 next()  4 check({l1})  5 check({l1,l2})  6 simplify_db()  7 new_clause({l1})  8 new_clause({l1,l2})
//       9 check({l1,l2,l3}) with var2 = v2 + 16*v3 and sign2 = s2 + 2*s3
// Calls whose documented precondition does not hold in the current (concrete) state are skipped: assume only on an
// undefined literal with an empty propagation queue, pop only above root level, new_clause / simplify_db only at root level.
#include "sat_core.h"
#include "clause.h"
#include "verif.h"
using namespace smt;

#define MAXV 10
#define MAXC 16
static bool a[MAXV]; // THE symbolic total assignment (a[0] = false is part of every premise)

struct cl { int n; size_t x[6]; lit l(int k) const { return lit(x[k] >> 1, x[k] & 1); } }; // plain data: no dynamic initialiser
static cl orig[MAXC];
static int norig;

static inline bool lval(const lit &p) { return sign(p) ? a[variable(p)] : !a[variable(p)]; }
static bool orig_sat()
{
  bool ok = !a[0];
  for (int i = 0; i < norig; i++)
  {
    bool s = false;
    for (int k = 0; k < orig[i].n; k++) s = s | lval(orig[i].l(k));
    ok = ok & s;
  }
  return ok;
}
static bool dec_sat(sat_core &s)
{
  bool ok = true;
  for (const auto &d : s.decisions) ok = ok & lval(d);
  return ok;
}
static void add_orig(const lit *ls, int n)
{
  CHECK(norig < MAXC, "harness bound on the number of clauses");
  orig[norig].n = n;
  for (int k = 0; k < n; k++) orig[norig].x[k] = index(ls[k]);
  norig++;
}

// checks that must hold whenever the network is in a quiescent, consistent state
static void check_state(sat_core &s)
{
  const bool prem = orig_sat() && dec_sat(s);
  // (E) every reported value is entailed by the added clauses and the standing decisions
  for (size_t v = 0; v < s.assigns.size(); v++)
    if (s.assigns[v] != Undefined)
      CHECK(!prem || a[v] == (s.assigns[v] == True), "a reported literal value is entailed by the clauses and the standing decisions");
  // (L) every clause the network stores (original or learnt) is a consequence of the added clauses
  const bool o = orig_sat();
  for (auto c : s.constrs)
  {
    clause *k = static_cast<clause *>(c);
    bool sat = false;
    for (auto &l : k->lits) sat = sat | lval(l);
    CHECK(!o || sat, "every stored (learnt) clause is implied by the added clauses");
  }
  // (U) unit propagation reached its fixpoint on the added clauses: none of them is unit or falsified under the reported values
  //     (a value wrongly cleared by pop/backjump shows up here, a value wrongly kept shows up under (E))
  for (int i = 0; i < norig; i++)
  {
    int undef = 0; bool sat = false;
    for (int k = 0; k < orig[i].n; k++)
    {
      lbool x = s.value(orig[i].l(k));
      if (x == True) sat = true;
      if (x == Undefined) undef++;
    }
    CHECK(sat || undef >= 2, "no added clause is unit or falsified under the reported values (propagation fixpoint)");
  }
  // (U') the same for every stored clause, learnt ones included: a learnt clause that is unit under the current values but has
  //      not propagated makes the reported values depend on the undone history (C08)
  for (auto c : s.constrs)
  {
    clause *k = static_cast<clause *>(c);
    int undef = 0; bool sat = false;
    for (auto &l : k->lits) { lbool x = s.value(l); if (x == True) sat = true; if (x == Undefined) undef++; }
    CHECK(sat || undef >= 2, "no stored (learnt) clause is unit or falsified under the reported values");
  }
  // trail / level bookkeeping agrees with the values
  CHECK(s.trail_lim.size() == s.decisions.size(), "one decision per decision level");
  size_t assigned = 0;
  for (size_t v = 1; v < s.assigns.size(); v++) if (s.assigns[v] != Undefined) assigned++;
  CHECK(assigned == s.trail.size(), "the trail lists exactly the assigned variables");
}

static int P; // read cursor into the parameter array
static int rd() { return PARAM(P++); }

__attribute__((noinline)) static void scenario() // noinline: cbmc counts loop unwindings per function activation
{
  const int V = rd(), NC = rd();
  sat_core &s = *new sat_core();
  var b[MAXV];
  b[0] = FALSE_var;
  for (int i = 1; i <= V; i++) b[i] = s.new_var();
  norig = 0;
  bool alive = true; // false once the network reported inconsistency (no further calls are made)
  for (int c = 0; c < NC; c++)
  {
    const int n = rd();
    CHECK(n <= 6, "harness bound on the clause length");
    lit ls[6];
    std::vector<lit> v;
    for (int k = 0; k < n; k++) { int x = rd(); int sg = rd(); ls[k] = lit(b[x], sg != 0); v.push_back(ls[k]); }
    if (!alive) continue;
    add_orig(ls, n);
    if (!s.new_clause(std::move(v))) { CHECK(!orig_sat(), "new_clause answers false only if the clauses are unsatisfiable"); alive = false; }
  }
  if (alive)
  {
    if (!s.propagate()) { CHECK(!orig_sat(), "root propagation fails only if the clauses are unsatisfiable"); alive = false; }
    else check_state(s);
  }
  const int H = rd();
  for (int h = 0; h < H; h++)
  {
    const int op = rd(), x1 = rd(), s1 = rd(), x2p = rd(), s2p = rd();
    const int x2 = x2p % 16, x3 = x2p / 16, s2 = s2p & 1, s3 = (s2p >> 1) & 1;
    const lit l1(b[x1], s1 != 0), l2(b[x2], s2 != 0), l3(b[x3], s3 != 0);
    if (!alive) continue;
    switch (op)
    {
    case 0: // assume
      if (s.value(l1) != Undefined || !s.prop_q.empty()) break;
      if (!s.assume(l1)) { CHECK(!orig_sat(), "assume answers false only if the clauses are unsatisfiable"); alive = false; }
      else check_state(s);
      break;
    case 1: // pop
      if (s.root_level()) break;
      s.pop();
      check_state(s);
      break;
    case 2:
      if (!s.propagate()) { CHECK(!orig_sat(), "propagate answers false only if the clauses are unsatisfiable"); alive = false; }
      else check_state(s);
      break;
    case 3: // next: the current decisions are excluded by a blocking clause, which counts as an added clause
    {
      if (s.root_level()) { CHECK(!s.next(), "next at root level reports that there is nothing to advance"); break; }
      if (s.value(!s.decisions.back()) != False) break; // next() requires the last decision to be still in force
      lit blk[3]; int n = 0;
      CHECK(s.decisions.size() <= 3, "harness bound on decisions");
      for (const auto &d : s.decisions) blk[n++] = !d;
      add_orig(blk, n);
      if (!s.next()) { CHECK(!orig_sat(), "next answers false only if clauses + blocking clauses are unsatisfiable"); alive = false; }
      else check_state(s);
      break;
    }
    case 4:
    case 5:
    case 9:
    { // check(assumptions): false only if clauses + decisions + assumptions are unsatisfiable; the network is left as it was
      std::vector<lit> q;
      q.push_back(l1);
      if (op != 4) q.push_back(l2);
      if (op == 9) q.push_back(l3);
      if (!s.prop_q.empty()) break;
      bool defined = s.value(l1) != Undefined || (op != 4 && (s.value(l2) != Undefined || variable(l1) == variable(l2)));
      if (op == 9) defined = defined || s.value(l3) != Undefined || variable(l3) == variable(l1) || variable(l3) == variable(l2);
      if (defined) break; // check() assumes its literals one by one: they have to be undefined
      const size_t lvl = s.decision_level();
      lbool before[MAXV];
      for (size_t v = 0; v < s.assigns.size(); v++) before[v] = s.assigns[v];
      const bool prem = orig_sat() && dec_sat(s) && lval(l1) && (op == 4 || lval(l2)) && (op != 9 || lval(l3));
      const bool r = s.check(q);
      if (!r) CHECK(!prem, "check answers false only if clauses + decisions + assumptions are unsatisfiable");
      CHECK(s.decision_level() <= lvl, "check does not leave its own assumptions on the trail");
      if (s.decision_level() == lvl)
        for (size_t v = 0; v < s.assigns.size(); v++)
          if (before[v] != Undefined) CHECK(s.assigns[v] == before[v], "check leaves every earlier value in place");
      if (s.prop_q.empty()) check_state(s);
      break;
    }
    case 6:
      if (!s.root_level() ) break;
      if (!s.simplify_db()) { CHECK(!orig_sat(), "simplify_db answers false only if the clauses are unsatisfiable"); alive = false; }
      else
      { // simplification may drop satisfied clauses and false literals but must keep the set of models
        bool all = true;
        for (auto c : s.constrs) { clause *k = static_cast<clause *>(c); bool sat = false; for (auto &l : k->lits) sat = sat | lval(l); all = all & sat; }
        bool roots = !a[0];
        for (size_t v = 1; v < s.assigns.size(); v++) if (s.assigns[v] != Undefined) roots = roots & (a[v] == (s.assigns[v] == True));
        CHECK(orig_sat() == (all && roots), "simplify_db keeps exactly the models of the added clauses");
      }
      break;
    default: // 7, 8: new_clause at root level
    {
      if (!s.root_level() || !s.prop_q.empty()) break;
      lit ls[2] = {l1, l2};
      const int n = op == 7 ? 1 : 2;
      add_orig(ls, n);
      std::vector<lit> v(ls, ls + n);
      if (!s.new_clause(std::move(v))) { CHECK(!orig_sat(), "new_clause answers false only if the clauses are unsatisfiable"); alive = false; break; }
      if (!s.propagate()) { CHECK(!orig_sat(), "propagate answers false only if the clauses are unsatisfiable"); alive = false; }
      else check_state(s);
      break;
    }
    }
  }
  if (alive && s.prop_q.empty())
  { // complete assignment: it satisfies every added clause (concrete evaluation on the reported values)
    bool complete = true;
    for (size_t v = 1; v < s.assigns.size(); v++) complete = complete && s.assigns[v] != Undefined;
    if (complete)
      for (int i = 0; i < norig; i++)
      {
        bool sat = false;
        for (int k = 0; k < orig[i].n; k++) sat = sat || s.value(orig[i].l(k)) == True;
        CHECK(sat, "a complete assignment satisfies every clause ever added");
      }
  }
}

extern "C" void h_sat()
{
  for (int i = 0; i < MAXV; i++) a[i] = nondet_bool();
  P = 0;
  const int K = rd();
  for (int k = 0; k < K; k++)
  {
    const int len = rd();
    const int end = P + len;
    scenario();
    CHECK(P == end, "harness: scenario consumed exactly its parameters");
    P = end;
  }
  WITNESS_POINT();
}
