// C15 — smt::rational / smt::inf_rational arithmetic and comparison are exact (no machine overflow inside the bound).
//
// Operands are fully symbolic.  A canonical operand is either a reduced fraction n/d (d > 0, |n|, d <= B, no common
// factor, 0 = 0/1) or, where the harness says so, +-infinity (+-1/0).  Results are compared with exact cross
// multiplication; every result must again be canonical.  B is the shape parameter PARAM(0).
#include "rational.h"
#include "inf_rational.h"
#include "verif.h"
using namespace smt;

static I B;

// oracle arithmetic is done in narrow types after an explicit range check: the implementation under test stays 64-bit,
// only the reference computations are kept small for the solver
#define R 2048
static void init() { B = PARAM(0); }
static bool small(I n) { return n >= -R && n <= R; }
static bool reduced(I n, I d)
{ // |n|, d <= 2*B*B <= 288: a common factor has a common prime factor <= 2*B*B (straight-line code: B is concrete per query)
  short sn = (short)n, sd = (short)d;
  const int lim = (int)(2 * B * B);
  bool ok = true;
#define PR(p) if (p <= lim) ok = ok & !((sn % p == 0) & (sd % p == 0));
  PR(2) PR(3) PR(5) PR(7) PR(11) PR(13) PR(17) PR(19) PR(23) PR(29) PR(31) PR(37) PR(41) PR(43) PR(47) PR(53) PR(59) PR(61) PR(67) PR(71) PR(73) PR(79) PR(83) PR(89) PR(97) PR(101) PR(103) PR(107) PR(109) PR(113) PR(127) PR(131) PR(137) PR(139) PR(149) PR(151) PR(157) PR(163) PR(167) PR(173) PR(179) PR(181) PR(191) PR(193) PR(197) PR(199) PR(211) PR(223) PR(227) PR(229) PR(233) PR(239) PR(241) PR(251) PR(257) PR(263) PR(269) PR(271) PR(277) PR(281) PR(283) PR(293)
#undef PR
  return ok;
}
static bool canonical(const rational &r)
{
  if (!small(r.num) || !small(r.den) || r.num > 2 * B * B || r.num < -2 * B * B || r.den > 2 * B * B) return false;
  if (r.den == 0) return r.num == 1 || r.num == -1;
  if (r.num == 0) return r.den == 1;
  return r.den > 0 && reduced(r.num, r.den);
}
// a symbolic canonical rational; inf: may it be +-infinity
static rational any(bool inf)
{
  rational r;
  I n = nondet_long(), d = nondet_long();
  ASSUME(n >= -B && n <= B && d >= 0 && d <= B);
  r.num = n; r.den = d;
  ASSUME(inf || d != 0);
  ASSUME(canonical(r));
  return r;
}
static I anyint()
{
  I k = nondet_long();
  ASSUME(k >= -B && k <= B);
  return k;
}
// exact comparison of two canonical values (with infinities): -1, 0, 1
static int cmp(const rational &a, const rational &b)
{
  int l = (int)a.num * (int)b.den, r = (int)b.num * (int)a.den; // finite: a.num/a.den ? b.num/b.den, denominators positive
  if (a.den == 0 && b.den == 0) return a.num < b.num ? -1 : a.num > b.num ? 1 : 0;
  if (a.den == 0) return a.num > 0 ? 1 : -1;
  if (b.den == 0) return b.num > 0 ? -1 : 1;
  return l < r ? -1 : l > r ? 1 : 0;
}

extern "C" void h_ctor()
{ // rational(n, d): value preserved, canonical, for every n and every d != 0 (also negative and non-reduced) and n/0
  init();
  I n = nondet_long(), d = nondet_long();
  ASSUME(n >= -B && n <= B && d >= -B && d <= B);
  ASSUME(n != 0 || d != 0);
  rational r(n, d);
  CHECK(canonical(r), "rational(n,d) is canonical");
  if (d != 0)
    CHECK((int)r.num * (int)d == (int)n * (int)r.den, "rational(n,d) has the value n/d");
  else
    CHECK(r.den == 0 && (r.num > 0) == (n > 0), "rational(n,0) is the infinity with the sign of n");
  rational k(n);
  CHECK(k.num == n && k.den == 1, "rational(n) is n/1");
  WITNESS_POINT();
}

extern "C" void h_cmp()
{ // the six comparisons form the exact total order (infinities included)
  init();
  rational a = any(true), b = any(true);
  int c = cmp(a, b);
  CHECK((a < b) == (c < 0), "operator< is the exact order");
  CHECK((a <= b) == (c <= 0), "operator<= is the exact order");
  CHECK((a == b) == (c == 0), "operator== is equality of values");
  CHECK((a != b) == (c != 0), "operator!= is inequality of values");
  CHECK((a >= b) == (c >= 0), "operator>= is the exact order");
  CHECK((a > b) == (c > 0), "operator> is the exact order");
  WITNESS_POINT();
}

extern "C" void h_cmp_int()
{
  init();
  rational a = any(true);
  I k = anyint();
  int c = cmp(a, rational(k));
  CHECK((a < k) == (c < 0), "rational < integer is the exact order");
  CHECK((a <= k) == (c <= 0), "rational <= integer is the exact order");
  CHECK((a == k) == (c == 0), "rational == integer is equality of values");
  CHECK((a != k) == (c != 0), "rational != integer is inequality of values");
  CHECK((a >= k) == (c >= 0), "rational >= integer is the exact order");
  CHECK((a > k) == (c > 0), "rational > integer is the exact order");
  WITNESS_POINT();
}

// expected value of a (op) b for finite canonical a, b as an unreduced fraction en/ed (ed > 0; ed == 0 marks +-inf by en)
static void expect(int op, const rational &ra, const rational &rb, int &en, int &ed)
{
  struct { int num, den; } a = {(int)ra.num, (int)ra.den}, b = {(int)rb.num, (int)rb.den};
  switch (op)
  {
  case 0: en = a.num * b.den + b.num * a.den; ed = a.den * b.den; break;
  case 1: en = a.num * b.den - b.num * a.den; ed = a.den * b.den; break;
  case 2: en = a.num * b.num; ed = a.den * b.den; break;
  default: en = a.num * b.den; ed = a.den * b.num; if (ed < 0) { en = -en; ed = -ed; } break;
  }
}
static void check_value(const rational &z, int en, int ed, const char *)
{
  CHECK(canonical(z), "result is canonical (reduced, positive denominator)");
  CHECK(z.den != 0 && (int)z.num * ed == en * (int)z.den, "result has the exact value");
}

// binary operators on finite operands, all operator forms.  PARAM(1) = op (0 +, 1 -, 2 *, 3 /), PARAM(2) = form:
// 0 rational op rational, 1 compound assignment, 2 rational op integer, 3 compound with integer, 4 integer op rational
extern "C" void h_arith()
{
  init();
  const int op = PARAM(1), form = PARAM(2);
  rational a = any(false), b = any(false);
  I k = anyint();
  if (form >= 2) b = rational(k);
  if (form == 4) { rational t = a; a = b; b = t; } // integer on the left
  if (op == 3) ASSUME(b.num != 0);
  int en, ed;
  expect(op, a, b, en, ed);
  rational z;
  switch (form)
  {
  case 0: z = op == 0 ? a + b : op == 1 ? a - b : op == 2 ? a * b : a / b; break;
  case 1: z = a; if (op == 0) z += b; else if (op == 1) z -= b; else if (op == 2) z *= b; else z /= b; break;
  case 2: z = op == 0 ? a + k : op == 1 ? a - k : op == 2 ? a * k : a / k; break;
  case 3: z = a; if (op == 0) z += k; else if (op == 1) z -= k; else if (op == 2) z *= k; else z /= k; break;
  default: z = op == 0 ? k + b : op == 1 ? k - b : op == 2 ? k * b : k / b; break;
  }
  check_value(z, en, ed, "");
  WITNESS_POINT();
}

extern "C" void h_neg()
{
  init();
  rational a = any(true);
  rational z = -a;
  CHECK(canonical(z), "-a is canonical");
  CHECK(z.den == a.den && z.num == -a.num, "-a negates the value");
  WITNESS_POINT();
}

// infinities in + and *: where the operation is defined (the implementation's own assert()s say where) the result is the
// mathematically expected infinity / finite value
extern "C" void h_inf_arith()
{
  init();
  rational a = any(true), b = any(true);
  ASSUME(a.den == 0 || b.den == 0);
  if (!(a.den == 0 && b.den == 0 && a.num != b.num))
  { // not inf + -inf
    rational z = a + b;
    CHECK(z.den == 0 && z.num == (a.den == 0 ? a.num : b.num), "x + inf = inf (with its sign)");
    rational y = a; y += b;
    CHECK(y == z, "+= agrees with +");
  }
  if (a.num != 0 && b.num != 0)
  { // not 0 * inf
    rational z = a * b;
    CHECK(z.den == 0 && (z.num > 0) == ((a.num > 0) == (b.num > 0)), "x * inf = inf with the product sign");
    rational y = a; y *= b;
    CHECK(y == z, "*= agrees with *");
  }
  WITNESS_POINT();
}

// ---------------------------------------------------------------- inf_rational (pairs rat + inf*epsilon)
static int cmp2(const inf_rational &a, const inf_rational &b)
{
  int c = cmp(a.rat, b.rat);
  return c != 0 ? c : cmp(a.inf, b.inf);
}
extern "C" void h_infrat_cmp()
{ // lexicographic order on (rational part, infinitesimal part)
  init();
  inf_rational a{any(false), any(false)}, b{any(false), any(false)};
  int c = cmp2(a, b);
  CHECK((a < b) == (c < 0), "inf_rational < is the lexicographic order");
  CHECK((a <= b) == (c <= 0), "inf_rational <= is the lexicographic order");
  CHECK((a == b) == (c == 0), "inf_rational == is equality");
  CHECK((a != b) == (c != 0), "inf_rational != is inequality");
  CHECK((a >= b) == (c >= 0), "inf_rational >= is the lexicographic order");
  CHECK((a > b) == (c > 0), "inf_rational > is the lexicographic order");
  rational r = any(false);
  int d = cmp2(a, inf_rational(r));
  CHECK((a < r) == (d < 0) && (a <= r) == (d <= 0) && (a == r) == (d == 0) && (a != r) == (d != 0) && (a >= r) == (d >= 0) && (a > r) == (d > 0), "inf_rational vs rational comparisons");
  I k = anyint();
  int e = cmp2(a, inf_rational(k));
  CHECK((a < k) == (e < 0) && (a <= k) == (e <= 0) && (a == k) == (e == 0) && (a != k) == (e != 0) && (a >= k) == (e >= 0) && (a > k) == (e > 0), "inf_rational vs integer comparisons");
  CHECK(is_positive(a) == (cmp2(a, inf_rational()) > 0) && is_negative(a) == (cmp2(a, inf_rational()) < 0) && is_zero(a) == (cmp2(a, inf_rational()) == 0), "sign predicates");
  WITNESS_POINT();
}
// component-wise + - and scalar * / : PARAM(1) = 0 a+b, 1 a-b, 2 a*r, 3 a/r, 4 -a, 5..10 inf_rational op rational/integer (binary and compound), 11..16 rational/integer on the left   (integer-valued parts keep the query small;
// the rational kernels themselves are covered by h_arith)
extern "C" void h_infrat_arith()
{
  init();
  const int op = PARAM(1);
  I a0 = anyint(), a1 = anyint(), b0 = anyint(), b1 = anyint(), k = anyint();
  inf_rational a{rational(a0), rational(a1)}, b{rational(b0), rational(b1)};
  rational r(k);
  inf_rational z, y = a;
  switch (op)
  {
  case 0: z = a + b; y += b; CHECK(z.rat == rational(a0 + b0) && z.inf == rational(a1 + b1), "inf_rational + is component-wise"); break;
  case 1: z = a - b; y -= b; CHECK(z.rat == rational(a0 - b0) && z.inf == rational(a1 - b1), "inf_rational - is component-wise"); break;
  case 2: z = a * r; y *= r; CHECK(z.rat == rational(a0 * k) && z.inf == rational(a1 * k), "inf_rational * scalar scales both parts"); break;
  case 3: ASSUME(k != 0); z = a / r; y /= r; CHECK(z.rat == rational(a0, k) && z.inf == rational(a1, k), "inf_rational / scalar scales both parts"); break;
  case 4: z = -a; y = -y; CHECK(z.rat == rational(-a0) && z.inf == rational(-a1), "unary minus negates both parts"); break;
  // mixed forms: inf_rational (op) rational / integer, compound forms, and rational / integer on the LEFT
  case 5: z = a + r; y += r; CHECK(z.rat == rational(a0 + k) && z.inf == rational(a1), "inf_rational + rational leaves the infinitesimal part unchanged"); break;
  case 6: z = a - r; y -= r; CHECK(z.rat == rational(a0 - k) && z.inf == rational(a1), "inf_rational - rational leaves the infinitesimal part unchanged"); break;
  case 7: z = a + k; y += k; CHECK(z.rat == rational(a0 + k) && z.inf == rational(a1), "inf_rational + integer leaves the infinitesimal part unchanged"); break;
  case 8: z = a - k; y -= k; CHECK(z.rat == rational(a0 - k) && z.inf == rational(a1), "inf_rational - integer leaves the infinitesimal part unchanged"); break;
  case 9: z = a * k; y *= k; CHECK(z.rat == rational(a0 * k) && z.inf == rational(a1 * k), "inf_rational * integer scales both parts"); break;
  case 10: ASSUME(k != 0); z = a / k; y /= k; CHECK(z.rat == rational(a0, k) && z.inf == rational(a1, k), "inf_rational / integer scales both parts"); break;
  case 11: z = r + a; y = a + r; CHECK(z.rat == rational(k + a0) && z.inf == rational(a1), "rational + inf_rational"); break;
  case 12: z = r - a; y = -(a - r); CHECK(z.rat == rational(k - a0) && z.inf == rational(-a1), "rational - inf_rational negates the infinitesimal part"); break;
  case 13: z = r * a; y = a * r; CHECK(z.rat == rational(k * a0) && z.inf == rational(k * a1), "rational * inf_rational scales both parts"); break;
  case 14: z = k + a; y = a + k; CHECK(z.rat == rational(k + a0) && z.inf == rational(a1), "integer + inf_rational"); break;
  case 15: z = k - a; y = -(a - k); CHECK(z.rat == rational(k - a0) && z.inf == rational(-a1), "integer - inf_rational negates the infinitesimal part"); break;
  default: z = k * a; y = a * k; CHECK(z.rat == rational(k * a0) && z.inf == rational(k * a1), "integer * inf_rational scales both parts"); break;
  }
  CHECK(y == z, "compound / mirrored form agrees with the binary form");
  WITNESS_POINT();
}
