// C14 — ov_theory: an object variable takes exactly one allowed value; the equality literal means "same value".
//
// A scenario (concrete): the domains of two object variables as bit masks over a pool of 3 values, whether exactly-one is
// enforced for each, and a short history of decisions on value literals.
//   P: D1, E1, D2, E2, H, H x (op, var, val, sign)     op: 0 assume(allows(var,val) / its negation)  1 pop
// symbolic: the total assignment of the SAT variables over which "every complete assignment" is quantified.
#include "sat_core.h"
#include "clause.h"
#include "ov_theory.h"
#include "verif.h"
using namespace smt;

#define MAXV 20
#define NVAL 3
static bool a[MAXV];
static inline bool lvalm(const bool *m, const lit &p) { return sign(p) ? m[variable(p)] : !m[variable(p)]; }
static inline bool lval(const lit &p) { return lvalm(a, p); }
static bool is_model(sat_core &s, const bool *m)
{
  bool ok = !m[0];
  for (size_t v = 0; v < s.assigns.size(); ++v)
    if (s.assigns[v] != Undefined && s.level[v] == 0) ok = ok & (m[v] == (s.assigns[v] == True));
  for (auto c : s.constrs)
  {
    clause *k = static_cast<clause *>(c);
    bool sat = false;
    for (auto &l : k->lits) sat = sat | lvalm(m, l);
    ok = ok & sat;
  }
  return ok;
}

static int P;
static int rdp() { return PARAM(P++); }

__attribute__((noinline)) static void scenario()
{
  const int D[2] = {rdp(), 0}; const int E1 = rdp(); const int D2 = rdp(); const int E2 = rdp();
  const int dom[2] = {D[0], D2}; const int enf[2] = {E1, E2};
  sat_core &s = *new sat_core();
  ov_theory &ov = *new ov_theory(s);
  var_value *pool[NVAL];
  for (int i = 0; i < NVAL; i++) pool[i] = new var_value();
  var ovv[2];
  for (int k = 0; k < 2; k++)
  {
    std::vector<var_value *> items;
    for (int i = 0; i < NVAL; i++) if (dom[k] & (1 << i)) items.push_back(pool[i]);
    ovv[k] = ov.new_var(items, enf[k] != 0);
  }
  bool pr = s.propagate();
  CHECK(pr, "creating object variables leaves the network consistent");
  // allows(): the value literal for values of the domain, FALSE for the others
  lit vl[2][NVAL];
  for (int k = 0; k < 2; k++) for (int i = 0; i < NVAL; i++)
  {
    vl[k][i] = ov.allows(ovv[k], *pool[i]);
    if (!(dom[k] & (1 << i))) CHECK(vl[k][i] == FALSE_lit, "a value outside the domain is never allowed");
  }
  const lit e = ov.new_eq(ovv[0], ovv[1]);
  const lit e2 = ov.new_eq(ovv[1], ovv[0]);
  CHECK(e == e2, "the equality literal does not depend on the order of the two variables");
  CHECK(s.assigns.size() <= MAXV, "harness bound on SAT variables");
  if ((dom[0] & dom[1]) == 0) CHECK(e == FALSE_lit, "variables with disjoint domains are never equal");
  pr = s.propagate();
  CHECK(pr, "requesting the equality leaves the network consistent");

  // (->) in every model: exactly one value per variable (if enforced), and the equality literal iff same value
  if (is_model(s, a))
  {
    bool same = false;
    int cnt[2] = {0, 0};
    for (int i = 0; i < NVAL; i++)
    {
      for (int k = 0; k < 2; k++) cnt[k] += lval(vl[k][i]) ? 1 : 0;
      same = same | (lval(vl[0][i]) & lval(vl[1][i]));
    }
    for (int k = 0; k < 2; k++) if (enf[k]) CHECK(cnt[k] == 1, "an object variable takes exactly one of its allowed values in every model");
    if (enf[0] && enf[1])
      CHECK(lval(e) == same, "the equality literal is true exactly when both variables take the same value");
    else if (cnt[0] == 1 && cnt[1] == 1)
      CHECK(lval(e) == same, "the equality literal is true exactly when both variables take the same value (single-valued model)");
  }
  // (<-) every pair of allowed values is possible: choose c0 in dom0 and c1 in dom1 symbolically, build the assignment that
  // makes exactly those value literals true, the equality literal accordingly, every other (auxiliary) variable true, and
  // require it to be a model
  {
    unsigned c0 = nondet_uint(), c1 = nondet_uint();
    if (c0 < NVAL && c1 < NVAL && (dom[0] & (1 << c0)) && (dom[1] & (1 << c1)))
    {
      bool b[MAXV];
      for (int v = 0; v < MAXV; v++) b[v] = true; // auxiliary exactly-one literals are asserted true at root
      b[0] = false;
      for (int i = 0; i < NVAL; i++)
      {
        if (variable(vl[0][i]) != FALSE_var) b[variable(vl[0][i])] = ((unsigned)i == c0);
        if (variable(vl[1][i]) != FALSE_var) b[variable(vl[1][i])] = ((unsigned)i == c1);
      }
      if (variable(e) != FALSE_var) b[variable(e)] = (c0 == c1);
      CHECK(is_model(s, b), "every pair of allowed values extends to a model (nothing is excluded by the encoding)");
    }
  }
  // a third variable built with new_var(lits, vals) on the value literals of variable 0 (what core does when a field is read through an
  // enum variable): w shares v0's controlling literals, so in every model w == v0 exactly when v0's value lies in w's domain
  {
    std::vector<lit> wl; std::vector<var_value *> wv;
    for (int i = 0; i < NVAL; i++) if ((dom[0] & (1 << i)) && (i != 0 || dom[0] == 1)) { wl.push_back(vl[0][i]); wv.push_back(pool[i]); }
    if (!wl.empty())
    {
      const var w = ov.new_var(wl, wv);
      const lit ew = ov.new_eq(ovv[0], w);
      CHECK(s.assigns.size() <= MAXV, "harness bound on SAT variables");
      pr = s.propagate();
      CHECK(pr, "requesting the equality with a literal-sharing variable leaves the network consistent");
      bool m2[MAXV];
      for (int i = 0; i < MAXV; i++) m2[i] = nondet_bool();
      if (is_model(s, m2))
      {
        int c0 = 0; bool inw = false;
        for (int i = 0; i < NVAL; i++)
        {
          c0 += lvalm(m2, vl[0][i]) ? 1 : 0;
          if ((dom[0] & (1 << i)) && (i != 0 || dom[0] == 1)) inw = inw | lvalm(m2, vl[0][i]);
        }
        if (c0 == 1) CHECK(lvalm(m2, ew) == inw, "equality with a variable sharing the controlling literals: true exactly when the common value is taken");
      }
    }
  }
  // history over value literals: the reported domain is exactly the set of values whose literal is not false, a removed value
  // is entailed to be impossible, and popping restores the domain
  const int H = rdp();
  size_t snap_size[4]; int depth = 0;
  for (int h = 0; h < H; h++)
  {
    const int op = rdp(), k = rdp(), i = rdp(), sg = rdp();
    if (op == 0)
    {
      lit l = vl[k][i];
      if (!sg) l = !l;
      if (variable(l) == FALSE_var || s.value(l) != Undefined || !s.prop_q.empty()) continue;
      if (depth < 4) snap_size[depth] = ov.value(ovv[0]).size() * 16 + ov.value(ovv[1]).size();
      if (!s.assume(l)) continue;
      depth++;
    }
    else
    {
      if (s.root_level()) continue;
      s.pop();
      depth--;
      if (depth >= 0 && depth < 4 && s.decision_level() == (size_t)depth)
        CHECK(ov.value(ovv[0]).size() * 16 + ov.value(ovv[1]).size() == snap_size[depth], "pop restores the reported domains");
    }
    for (int kk = 0; kk < 2; kk++)
    {
      auto dv = ov.value(ovv[kk]);
      for (int j = 0; j < NVAL; j++)
      {
        const bool in = dv.count(pool[j]) != 0;
        const bool excluded = !(dom[kk] & (1 << j)) || s.value(vl[kk][j]) == False;
        CHECK(in == !excluded, "the reported domain is exactly the set of values not yet excluded");
      }
    }
  }
}

extern "C" void h_ov()
{
  for (int i = 0; i < MAXV; i++) a[i] = nondet_bool();
  P = 0;
  const int K = rdp();
  for (int k = 0; k < K; k++)
  {
    const int len = rdp();
    const int end = P + len;
    scenario();
    P = end;
  }
  WITNESS_POINT();
}

// large domains (5 and more values): ov_theory::new_var goes through the grid encoding of exactly-one.
//   PARAM(0) = number of values n.   For ALL total assignments: in every model the variable has exactly one value, and the
//   reported domain after choosing a value (assume its literal) is that value alone.
#define MAXW 30
extern "C" void h_big()
{
  const int n = PARAM(0);
  sat_core &s = *new sat_core();
  ov_theory &ov = *new ov_theory(s);
  var_value *pool[8];
  std::vector<var_value *> items;
  for (int i = 0; i < n; i++) { pool[i] = new var_value(); items.push_back(pool[i]); }
  const var v = ov.new_var(items, true);
  bool pr = s.propagate();
  CHECK(pr, "creating the object variable leaves the network consistent");
  CHECK(s.assigns.size() <= MAXW, "harness bound on SAT variables");
  bool m[MAXW];
  for (int i = 0; i < MAXW; i++) m[i] = nondet_bool();
  lit vl[8];
  int cnt = 0;
  for (int i = 0; i < n; i++) { vl[i] = ov.allows(v, *pool[i]); cnt += lvalm(m, vl[i]) ? 1 : 0; }
  if (is_model(s, m)) CHECK(cnt == 1, "an object variable with a large domain takes exactly one of its allowed values in every model");
  // choose each value in turn: propagation must leave exactly that value in the reported domain
  for (int i = 0; i < n; i++)
  {
    if (!s.assume(vl[i])) { CHECK(false, "choosing an allowed value is consistent"); break; }
    CHECK(ov.value(v).size() == 1 && ov.value(v).count(pool[i]) == 1, "after choosing a value the reported domain is that value alone");
    s.pop();
  }
  WITNESS_POINT();
}
