// Native replay runtime: the same harness source is compiled with g++ against the real sources and the real
// libstdc++; nondet_* return the values of a cbmc counterexample (one per line in $VERIF_REPLAY, in call order).
#include <cstdio>
#include <cstdlib>
#include <vector>
#include <string>
#include <fstream>

static std::vector<long long> vals;
static std::vector<long long> params;
static size_t idx = 0;
static bool loaded = false;
static void load()
{
    loaded = true;
    const char *p = getenv("VERIF_REPLAY");
    if (!p)
        return;
    std::ifstream in(p);
    std::string line;
    while (std::getline(in, line))
    {
        if (line.rfind("# params=", 0) == 0)
        {
            const char *q = line.c_str() + 9;
            while (*q)
            {
                char *e;
                long long v = strtoll(q, &e, 10);
                if (e == q)
                    break;
                params.push_back(v);
                q = (*e == ',') ? e + 1 : e;
            }
            continue;
        }
        if (line.empty() || line[0] == '#')
            continue;
        vals.push_back(strtoll(line.c_str(), nullptr, 10));
    }
}
static long long next()
{
    if (!loaded)
        load();
    return idx < vals.size() ? vals[idx++] : (idx++, 0);
}
extern "C"
{
    bool nondet_bool() noexcept { return next() != 0; }
    unsigned char nondet_uchar() noexcept { return (unsigned char)next(); }
    int nondet_int() noexcept { return (int)next(); }
    unsigned nondet_uint() noexcept { return (unsigned)next(); }
    long nondet_long() noexcept { return (long)next(); }
    void __CPROVER_assume(bool c) noexcept
    {
        if (!c)
        {
            printf("REPLAY-ASSUME-VIOLATED after %zu inputs\n", idx);
            fflush(stdout);
            _Exit(77);
        }
    }
    void __CPROVER_assert(bool c, const char *m) noexcept
    {
        if (!c)
        {
            printf("REPLAY-ASSERT-FAIL: %s\n", m);
            fflush(stdout);
            _Exit(1);
        }
    }
    void __verif_witness() noexcept {}
    int verif_param(int k) noexcept
    {
        if (!loaded)
            load();
        return k < (int)params.size() ? (int)params[k] : 0;
    }
    void ENTRY();
}
int main()
{
    ENTRY();
    printf("REPLAY-END-OK inputs=%zu\n", idx);
    fflush(stdout);
    _Exit(0); // skip static destructors: the harness has already run its own
}
