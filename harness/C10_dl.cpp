// C10 (and the difference-logic part of C08) — idl_theory / rdl_theory: distances are exact, conflicts mean a negative
// cycle, propagated literals and explanations are valid, and pop restores the matrix.
//
// Compile with -DRDL for rdl_theory (distances are inf_rational; constants are integers here, strictness enters
// through negated constraints), without for idl_theory.
//
// A scenario (concrete, enumerated by the driver): T time points, NC constraints `to - from <= d` created with
// new_distance, then a history of calls.  After creation and after every call the harness checks, against the semantics
// "all assignments x of the time points" (x symbolic, so decided by the solver for ALL x in [-R, R]^T at once) and against a
// Floyd-Warshall reference over the currently asserted constraints (computed by the harness):
//   (M) reported distance matrix == reference (tightest implied distances; after pop: as if the undone decisions never happened)
//   (S) every x satisfying the asserted constraints respects every reported distance (bounds contain every solution)
//   (P) no undecided constraint literal is already decided by the reference distances (everything decided is propagated)
//   (L) every clause stored in the SAT core (theory explanations, learnt clauses) is valid under the semantics of the literals
//   (E) every assigned constraint literal is entailed by the root clauses and standing decisions under that semantics
//   (C) inconsistency is reported only if no x satisfies the root-level constraints; a consistent state has no negative cycle
//
// batch protocol: PARAM(0) = number of scenarios; per scenario: length, then
//   T, NC, NC x (from, to, d), H, H x (op, c, sign)     op: 0 assume(lit_c / !lit_c)  1 pop  2 assert at root (unit clause + propagate)  3 check({lit})
//                                                       4 + 8*c2 + 4... : see below: op 4 = root clause (sign ? lit_c : !lit_c) | lit_c2 / !lit_c2 with c2, sign2 packed in `sign`: sign = s1 + 2*s2 + 4*c2
#include "sat_core.h"
#include "clause.h"
#ifdef RDL
#include "rdl_theory.h"
typedef smt::rdl_theory TH;
#else
#include "idl_theory.h"
typedef smt::idl_theory TH;
#endif
#include "verif.h"
using namespace smt;

#define MAXT 6
#define MAXCN 6
#define R 8
static int x[MAXT]; // THE symbolic assignment of the time points (x[0] = 0 is the origin)

struct cn { int from, to, d; size_t litx; };
static const void *problem_cl[8]; static int n_problem; // clauses added by the scenario itself (premises, not explanations)
static size_t proot[16]; static int n_proot; // literals asserted at root level by the scenario itself (facts of the problem)
static bool is_problem(const void *c) { for (int i = 0; i < n_problem; i++) if (problem_cl[i] == c) return true; return false; }
static cn cs[MAXCN];
static int ncs;
static int T;

static inline lit mklit(size_t v) { return lit(v >> 1, v & 1); }
// truth value of constraint c under x:  x[to] - x[from] <= d
static inline bool holds(const cn &c) { return x[c.to] - x[c.from] <= c.d; }
// value of an arbitrary SAT literal under the assignment induced by x (constraint literals by their meaning, constants)
static bool aval(const lit &p, bool &known)
{
  const var v = variable(p);
  known = true;
  if (v == FALSE_var) return !sign(p);
  for (int i = 0; i < ncs; i++)
    if (variable(mklit(cs[i].litx)) == v && v != FALSE_var)
    {
      bool h = holds(cs[i]);
      return sign(p) ? h : !h;
    }
  known = false;
  return false;
}
// x satisfies every constraint whose literal is currently assigned in the SAT core (negated ones as to - from >= d + 1 for
// integers; for reals the strict form  to - from > d)
static bool x_sat_assigned(sat_core &s, bool root_only)
{
  bool ok = x[0] == 0;
  for (int i = 0; i < ncs; i++)
  {
    const lit l = mklit(cs[i].litx);
    if (variable(l) == FALSE_var) continue;
    if (root_only && s.level[variable(l)] != 0) continue;
    lbool v = s.value(l);
    if (v == True) ok = ok & holds(cs[i]);
    if (v == False) ok = ok & !holds(cs[i]);
  }
  return ok;
}

#ifdef RDL
typedef inf_rational NUM;
static NUM num(long k) { return inf_rational(rational(k)); }
static bool is_inf(const NUM &n) { return is_positive_infinite(n); }
#else
typedef I NUM;
static NUM num(long k) { return k; }
static bool is_inf(const NUM &n) { return n == TH::inf(); }
#endif

// Floyd-Warshall over the asserted constraints; returns false on a negative cycle.  Distances are exact integers for idl;
// for rdl a negated constraint to - from <= d contributes from - to <= -d - eps, tracked as (value, eps count).
struct rd { long v; long e; bool inf; };
static rd ref[MAXT][MAXT];
static bool rd_lt(const rd &a, const rd &b) { if (a.inf) return false; if (b.inf) return true; return a.v < b.v || (a.v == b.v && a.e < b.e); }
static bool reference(sat_core &s)
{
  const int n = T + 1;
  for (int i = 0; i < n; i++) for (int j = 0; j < n; j++) { ref[i][j].v = 0; ref[i][j].e = 0; ref[i][j].inf = i != j; }
  for (int i = 0; i < ncs; i++)
  {
    const lit l = mklit(cs[i].litx);
    if (variable(l) == FALSE_var) continue;
    lbool v = s.value(l);
    rd c; c.inf = false;
    int f, t;
    if (v == True) { f = cs[i].from; t = cs[i].to; c.v = cs[i].d; c.e = 0; }
    else if (v == False)
    {
      f = cs[i].to; t = cs[i].from;
#ifdef RDL
      c.v = -cs[i].d; c.e = -1;
#else
      c.v = -cs[i].d - 1; c.e = 0;
#endif
    }
    else continue;
    if (rd_lt(c, ref[f][t])) ref[f][t] = c;
  }
  for (int k = 0; k < n; k++) for (int i = 0; i < n; i++) for (int j = 0; j < n; j++)
    if (!ref[i][k].inf && !ref[k][j].inf)
    {
      rd c; c.inf = false; c.v = ref[i][k].v + ref[k][j].v; c.e = ref[i][k].e + ref[k][j].e;
      if (rd_lt(c, ref[i][j])) ref[i][j] = c;
    }
  bool ok = true;
  for (int i = 0; i < n; i++) { rd z; z.inf = false; z.v = 0; z.e = 0; if (rd_lt(ref[i][i], z)) ok = false; }
  return ok;
}
static bool same(const NUM &d, const rd &r)
{
  if (r.inf) return is_inf(d);
#ifdef RDL
  return d == inf_rational(rational(r.v), rational(r.e));
#else
  return d == r.v;
#endif
}

static void check_state(sat_core &s, TH &th)
{
  const int n = T + 1;
  const bool consistent = reference(s);
  CHECK(consistent, "(C) a state reported consistent has no negative cycle among the asserted constraints");
  if (!consistent) return;
  // (M)
  for (int i = 0; i < n; i++) for (int j = 0; j < n; j++)
    CHECK(same(th._dists[i][j], ref[i][j]), "(M) reported distance equals the tightest distance implied by the asserted constraints");
  // (S)
  const bool xs = x_sat_assigned(s, false);
#ifndef RDL
  for (int i = 0; i < n; i++) for (int j = 0; j < n; j++)
    if (!ref[i][j].inf) CHECK(!xs || x[j] - x[i] <= th._dists[i][j], "(S) every solution of the asserted constraints respects the reported distances");
#endif
  // (P)
  for (int i = 0; i < ncs; i++)
  {
    const lit l = mklit(cs[i].litx);
    if (variable(l) == FALSE_var || s.value(l) != Undefined) continue;
    rd pos; pos.inf = false; pos.v = cs[i].d; pos.e = 0;      // ref[from][to] <= d  decides true
    rd neg; neg.inf = false; neg.v = -cs[i].d; neg.e = 0;     // ref[to][from] < -d  decides false
    bool dec_true = !ref[cs[i].from][cs[i].to].inf && !rd_lt(pos, ref[cs[i].from][cs[i].to]);
    bool dec_false = rd_lt(ref[cs[i].to][cs[i].from], neg);
    CHECK(!dec_true && !dec_false, "(P) a constraint literal decided by the current distances has been propagated");
  }
  // (L) and (E)
  bool root_ok = x[0] == 0; // x-induced assignment satisfies every clause and root assignment of the SAT core
  bool xr = x_sat_assigned(s, true); // conflict analysis drops root-level literals: clauses are valid modulo the root assignments
  for (auto c : s.constrs)
    if (is_problem(c)) { clause *k = static_cast<clause *>(c); bool sat = false; for (auto &l : k->lits) { bool kn; sat = sat | aval(l, kn); } xr = xr & sat; } // ... and modulo the problem's own clauses
  for (auto c : s.constrs)
  {
    clause *k = static_cast<clause *>(c);
    bool sat = false, all_known = true;
    for (auto &l : k->lits) { bool kn; bool v = aval(l, kn); all_known = all_known && kn; sat = sat | v; }
    if (!is_problem(c)) CHECK(!all_known || !xr || sat, "(L) every stored clause / explanation is valid under the meaning of its constraint literals (modulo root-level assignments)");
    root_ok = root_ok & sat;
  }
  for (size_t v = 1; v < s.assigns.size(); v++)
    if (s.assigns[v] != Undefined && s.level[v] == 0) { bool kn; bool val = aval(lit(v, s.assigns[v] == True), kn); root_ok = root_ok & (!kn || val); }
  // (E0) root-level assignments are premises of (L) and (E) above, so they are checked on their own against the PROBLEM: the scenario's clauses
  // and root facts (a wrongly learnt unit clause shows up here and nowhere else)
  {
    bool prob = x[0] == 0;
    for (auto c : s.constrs)
      if (is_problem(c)) { clause *k = static_cast<clause *>(c); bool sat = false; for (auto &l : k->lits) { bool kn; sat = sat | aval(l, kn); } prob = prob & sat; }
    for (int i = 0; i < n_proot; i++) { bool kn; bool v = aval(lit(proot[i] >> 1, proot[i] & 1), kn); prob = prob & (!kn || v); }
    for (int i = 0; i < ncs; i++)
    {
      const lit l = mklit(cs[i].litx);
      if (variable(l) == FALSE_var || s.value(l) == Undefined || s.level[variable(l)] != 0) continue;
      CHECK(!prob || holds(cs[i]) == (s.value(l) == True), "(E0) a root-level assignment of a constraint literal is entailed by the problem's clauses and root facts");
    }
  }
  bool dec_ok = true;
  for (const auto &d : s.decisions) { bool kn; bool val = aval(d, kn); dec_ok = dec_ok & (!kn || val); }
  for (int i = 0; i < ncs; i++)
  {
    const lit l = mklit(cs[i].litx);
    if (variable(l) == FALSE_var || s.value(l) == Undefined) continue;
    CHECK(!(root_ok && dec_ok) || holds(cs[i]) == (s.value(l) == True), "(E) an assigned constraint literal is entailed by the root clauses and standing decisions");
  }
}
static void check_unsat(sat_core &s, const lit *extra)
{ // the network reported inconsistency at root level: no x may satisfy the root-level constraints and clauses
  // (extra: the unit clause whose addition was refused - it is not stored anywhere, but it is part of the problem)
  bool root_ok = x[0] == 0;
  if (extra) { bool kn; bool v = aval(*extra, kn); root_ok = root_ok & (!kn || v); }
  for (auto c : s.constrs)
  {
    clause *k = static_cast<clause *>(c);
    bool sat = false;
    for (auto &l : k->lits) { bool kn; sat = sat | aval(l, kn); }
    root_ok = root_ok & sat;
  }
  root_ok = root_ok & x_sat_assigned(s, true);
  CHECK(!root_ok, "(C) inconsistency is reported only if no assignment satisfies the root-level constraints");
}

static int P;
static int rd_() { return PARAM(P++); }

__attribute__((noinline)) static void scenario()
{
  T = rd_();
  const int NC = rd_();
  sat_core &s = *new sat_core();
  TH &th = *new TH(s, 4);
  var tp[MAXT];
  tp[0] = 0;
  for (int i = 1; i <= T; i++) tp[i] = th.new_var();
  ncs = 0; n_problem = 0; n_proot = 0;
  for (int c = 0; c < NC; c++)
  {
    cs[ncs].from = rd_(); cs[ncs].to = rd_(); cs[ncs].d = rd_();
    lit l = th.new_distance(tp[cs[ncs].from], tp[cs[ncs].to], num(cs[ncs].d));
    cs[ncs].litx = index(l);
    // a constant answer must be justified by the (root) distances: TRUE only if the constraint already holds for every
    // solution, FALSE only if it holds for none
    if (l == TRUE_lit) CHECK(!x_sat_assigned(s, true) || holds(cs[ncs]), "new_distance answers TRUE only for a constraint implied at root level");
    if (l == FALSE_lit) CHECK(!x_sat_assigned(s, true) || !holds(cs[ncs]), "new_distance answers FALSE only for a constraint refuted at root level");
    ncs++;
  }
  bool alive = true;
  check_state(s, th);
  const int H = rd_();
  for (int h = 0; h < H; h++)
  {
    const int op = rd_(), ci = rd_(), sgp = rd_();
    if (!alive) continue;
    if (op == 4)
    { // binary clause between two constraint literals, added at root level (lets ONE decision assert several constraints)
      const int s1 = sgp & 1, s2 = (sgp >> 1) & 1, c2 = sgp >> 2;
      lit l1 = mklit(cs[ci].litx), l2 = mklit(cs[c2].litx);
      if (!s1) l1 = !l1;
      if (!s2) l2 = !l2;
      if (!s.root_level() || !s.prop_q.empty()) continue;
      const size_t ncl0 = s.constrs.size();
      if (!s.new_clause({l1, l2}) || !s.propagate())
      { // refused: no x may satisfy the root constraints together with this clause
        bool k1, k2; const bool v1 = aval(l1, k1), v2 = aval(l2, k2);
        bool root_ok = x[0] == 0 && (v1 || v2);
        for (auto c : s.constrs) { clause *k = static_cast<clause *>(c); bool sat = false; for (auto &l : k->lits) { bool kn; sat = sat | aval(l, kn); } root_ok = root_ok & sat; }
        root_ok = root_ok & x_sat_assigned(s, true);
        CHECK(!root_ok, "(C) a clause is refused only if no assignment satisfies the root-level constraints together with it");
        alive = false;
      }
      else
      {
        if (s.constrs.size() > ncl0 && n_problem < 8) problem_cl[n_problem++] = s.constrs.back();
        check_state(s, th);
      }
      continue;
    }
    const int sg = sgp;
    lit l = mklit(cs[ci].litx);
    if (sg == 0) l = !l;
    const bool constant = variable(l) == FALSE_var;
    switch (op)
    {
    case 0:
      if (constant || s.value(l) != Undefined || !s.prop_q.empty()) break;
      if (!s.assume(l)) { check_unsat(s, nullptr); alive = false; }
      else check_state(s, th);
      break;
    case 1:
      if (s.root_level()) break;
      s.pop();
      check_state(s, th);
      break;
    case 2:
      if (!s.root_level() || !s.prop_q.empty()) break;
      if (n_proot < 16) proot[n_proot++] = index(l);
      if (!s.new_clause({l}) || !s.propagate()) { check_unsat(s, &l); alive = false; }
      else check_state(s, th);
      break;
    default:
    {
      if (constant || s.value(l) != Undefined || !s.prop_q.empty()) break;
      const bool prem = x_sat_assigned(s, false) && (sign(l) ? holds(cs[ci]) : !holds(cs[ci]));
      const bool r = s.check({l});
      if (!r) CHECK(!prem, "check answers false only if the constraints together with the assumption are unsatisfiable");
      if (s.prop_q.empty()) check_state(s, th);
      break;
    }
    }
  }
}

extern "C" void h_dl()
{
  for (int i = 0; i < MAXT; i++) { x[i] = nondet_int(); ASSUME(x[i] >= -R && x[i] <= R); }
  P = 0;
  const int K = rd_();
  for (int k = 0; k < K; k++)
  {
    const int len = rd_();
    const int end = P + len;
    scenario();
    CHECK(P == end, "harness: scenario consumed exactly its parameters");
    P = end;
  }
  WITNESS_POINT();
}
