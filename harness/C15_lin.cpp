// C15 — smt::lin operators act coefficient-wise on every variable and on the constant term.
//
// shape parameters (concrete per query): PARAM(0) = B (bound on the integer coefficients), PARAM(1) = operator,
// PARAM(2) / PARAM(3) = bit masks of the variables {0,1,2} present in the left / right operand,
// PARAM(4) = scalar (99: symbolic; otherwise that concrete value - used where the scalar being zero changes the shape
// of the result map), PARAM(5+v) = index into PAIRS of the concrete coefficient pair of a variable v present in BOTH
// operands (whether the two coefficients cancel decides whether the result map keeps the variable).
// symbolic: every other coefficient (non-zero, in [-B, B]), both constant terms, the scalar unless concrete.
// Coefficients and scalars are integer-valued rationals (exactness of the rational kernels themselves is C15_rational);
// for the division operators the scalar is an integer k != 0, so quotients are genuine fractions.
// A variable missing from the result map and one present with coefficient 0 are both read as coefficient 0.
#include "lin.h"
#include "verif.h"
using namespace smt;

static I B;
static I anyint(bool nonzero)
{
  I k = nondet_long();
  ASSUME(k >= -B && k <= B);
  ASSUME(!nonzero || k != 0);
  return k;
}
static rational coef(const lin &l, var v)
{
  auto it = l.vars.find(v);
  return it == l.vars.end() ? rational(0) : it->second;
}
struct ref { I c[3]; I k; };
static const int PAIRS[6][2] = {{1, -1}, {1, 1}, {2, 3}, {-2, 2}, {-2, -2}, {3, -1}};
static lin make(int mask, int other, int side, ref &r)
{
  lin l;
  for (int v = 0; v < 3; v++)
  {
    r.c[v] = 0;
    if (mask & (1 << v))
    {
      r.c[v] = (other & (1 << v)) ? (I)PAIRS[PARAM(5 + v)][side] : anyint(true);
      l.vars.emplace((var)v, rational(r.c[v]));
    }
  }
  r.k = anyint(false);
  l.known_term = rational(r.k);
  return l;
}
static void expect_int(const lin &z, const I *c, I k)
{
  CHECK(coef(z, 0) == rational(c[0]) && coef(z, 1) == rational(c[1]) && coef(z, 2) == rational(c[2]), "every coefficient of the result is the coefficient-wise result");
  CHECK(z.known_term == rational(k), "the constant term of the result is the result on the constant terms");
  CHECK(z.vars.size() <= 3, "no variable appears that is in neither operand");
}
static void expect_div(const lin &z, const I *c, I k, I d)
{
  CHECK(coef(z, 0) == rational(c[0], d) && coef(z, 1) == rational(c[1], d) && coef(z, 2) == rational(c[2], d), "every coefficient of the quotient is coefficient / scalar");
  CHECK(z.known_term == rational(k, d), "the constant term of the quotient is constant / scalar");
}

extern "C" void h_lin()
{
  B = PARAM(0);
  const int op = PARAM(1);
  ref ra, rb;
  lin a = make(PARAM(2), PARAM(3), 0, ra);
  lin b = make(PARAM(3), PARAM(2), 1, rb);
  I s = PARAM(4) == 99 ? anyint(false) : (I)PARAM(4);
  const rational rs(s);
  I c[3];
  switch (op)
  {
  case 0: { lin z = a + b; for (int v = 0; v < 3; v++) c[v] = ra.c[v] + rb.c[v]; expect_int(z, c, ra.k + rb.k); break; }
  case 1: { lin z = a; z += b; for (int v = 0; v < 3; v++) c[v] = ra.c[v] + rb.c[v]; expect_int(z, c, ra.k + rb.k); break; }
  case 2: { lin z = a - b; for (int v = 0; v < 3; v++) c[v] = ra.c[v] - rb.c[v]; expect_int(z, c, ra.k - rb.k); break; }
  case 3: { lin z = a; z -= b; for (int v = 0; v < 3; v++) c[v] = ra.c[v] - rb.c[v]; expect_int(z, c, ra.k - rb.k); break; }
  case 4: { lin z = a + rs; expect_int(z, ra.c, ra.k + s); break; }
  case 5: { lin z = rs + a; expect_int(z, ra.c, ra.k + s); break; }
  case 6: { lin z = a; z += rs; expect_int(z, ra.c, ra.k + s); break; }
  case 7: { lin z = a - rs; expect_int(z, ra.c, ra.k - s); break; }
  case 8: { lin z = rs - a; for (int v = 0; v < 3; v++) c[v] = -ra.c[v]; expect_int(z, c, s - ra.k); break; }
  case 9: { lin z = a; z -= rs; expect_int(z, ra.c, ra.k - s); break; }
  case 10: { lin z = a * rs; for (int v = 0; v < 3; v++) c[v] = ra.c[v] * s; expect_int(z, c, ra.k * s); break; }
  case 11: { lin z = rs * a; for (int v = 0; v < 3; v++) c[v] = ra.c[v] * s; expect_int(z, c, ra.k * s); break; }
  case 12: { lin z = a; z *= rs; for (int v = 0; v < 3; v++) c[v] = ra.c[v] * s; expect_int(z, c, ra.k * s); break; }
  case 13: { ASSUME(s != 0); lin z = a / rs; expect_div(z, ra.c, ra.k, s); break; }
  case 14: { ASSUME(s != 0); lin z = a; z /= rs; expect_div(z, ra.c, ra.k, s); break; }
  default: { lin z = -a; for (int v = 0; v < 3; v++) c[v] = -ra.c[v]; expect_int(z, c, -ra.k); break; }
  }
  WITNESS_POINT();
}
