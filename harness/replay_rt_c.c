/* runtime for executing the TRANSLATED C natively (gcc) on a stored counterexample: used to tell a translator / model
   discrepancy (translated C fails, C++ build does not) from a cbmc-level one */
#include <stdio.h>
#include <stdlib.h>
#include <string.h>
static long long vals[4096]; static int nvals = -1, idx = 0;
static void load(void) {
  nvals = 0; const char *p = getenv("VERIF_REPLAY"); if (!p) return;
  FILE *f = fopen(p, "r"); if (!f) return; char line[65536];
  while (fgets(line, sizeof line, f)) { if (line[0] == '#' || line[0] == '\n') continue; vals[nvals++] = strtoll(line, 0, 10); }
  fclose(f);
}
static long long next(void) { if (nvals < 0) load(); return idx < nvals ? vals[idx++] : (idx++, 0); }
_Bool nondet_bool(void) { return next() != 0; }
unsigned char nondet_uchar(void) { return (unsigned char)next(); }
unsigned int nondet_int(void) { return (unsigned int)next(); }
unsigned int nondet_uint(void) { return (unsigned int)next(); }
unsigned long nondet_long(void) { return (unsigned long)next(); }
void ENTRY(void);
int main(void) { ENTRY(); printf("TRANSLATED-END-OK inputs=%d\n", idx); return 0; }
