// C09 / C11 (and the LRA part of C08) — lra_theory: reported values are a model, bounds contain every solution, explanations
// are valid, conflicts mean infeasibility, and a relation literal means exactly its relation.
//
// Two real variables x, y.  A scenario (concrete, enumerated by the driver):
//   NR, NR x (rel, c1, c2, kn, kd, e)   relation requests  (c1+e)*x + (c2+e)*y  REL  e*x + e*y + kn/kd   (e != 0: variables that cancel)   (rel: 0 <, 1 <=, 2 =, 3 >=, 4 >;  rel + 10: deferred,
//                                       the request is only made when the history reaches its `request` step)
//   H,  H x (op, r, sign)               0 assume(lit_r / !lit_r)  1 pop  2 assert at root (unit clause + propagate)  3 check({lit})
//                                       4 request relation r now (root level only; C11: a literal requested after bounds were tightened)
//                                       5 root clause (lit_r or its negation) | (lit_r2 or its negation), sign = s1 + 2*s2 + 4*r2
// symbolic: the point (X, Y) in [-R, R]^2 (integers; the constants are integers or halves, so strict and non-strict
// relations are told apart) and a total assignment of the SAT variables.  Checks after every call:
//   (V) concrete: every asserted assertion holds for the reported values (strict ones through the infinitesimal part), every
//       tableau row holds for the reported values, every value lies within the reported bounds
//   (S) for ALL (X, Y) satisfying the asserted assertions, the induced value of every theory variable lies within its bounds
//   (L) every clause stored in the SAT core is valid under the meaning of the assertion literals, for ALL (X, Y)
//   (E) every assigned assertion literal is entailed by root clauses + standing decisions, for ALL (X, Y)
//   (C) inconsistency only if no grid point satisfies the root-level constraints
//   (R) for ALL (X, Y) and ALL SAT assignments that model the clause database and give every assertion literal its meaning,
//       each relation literal has exactly the truth value of its relation (C11); requesting it changes no earlier bound
#include "sat_core.h"
#include "clause.h"
#include "lra_theory.h"
#include "lra_constraint.h"
#include "verif.h"
using namespace smt;

#define RG 6
#define MAXTV 8   // theory variables (x, y, slacks)
#define MAXV 14   // SAT variables
#define MAXR 4
static int X, Y;
static bool a[MAXV];
static int cx[MAXTV], cy[MAXTV], ck[MAXTV]; // meaning of theory variable v: cx[v]*x + cy[v]*y + ck[v]
// derived variables z_t = za*x + zb*y + zk created through lra_theory::new_var(lin) (rows with a constant term); a relation with extra >= 100 is over z_(extra-100)
static const int ZT[4][3] = {{1, 0, 3}, {1, 1, -1}, {-1, 0, 2}, {2, -1, 1}};
static int ntv;
static size_t proot[16]; static int n_proot; // literals asserted at root level by the scenario itself (facts of the problem)
static size_t n_defs; // clauses present before the history starts (definitions of conjunction variables)

static inline bool lval(const lit &p) { return sign(p) ? a[variable(p)] : !a[variable(p)]; }
static inline long tval(var v) { return (long)cx[v] * X + (long)cy[v] * Y + ck[v]; }
// value  <= / >=  bound q + e*eps, for an integer value:   leq: value < q if e < 0, value <= q otherwise;  geq: value > q if e > 0
static bool sat_leq(long val, const inf_rational &b)
{
  const rational q = b.get_rational();
  if (is_infinite(q)) return is_positive(q);
  return is_negative(b.get_infinitesimal()) ? val * q.denominator() < q.numerator() : val * q.denominator() <= q.numerator();
}
static bool sat_geq(long val, const inf_rational &b)
{
  const rational q = b.get_rational();
  if (is_infinite(q)) return is_negative(q);
  return is_positive(b.get_infinitesimal()) ? val * q.denominator() > q.numerator() : val * q.denominator() >= q.numerator();
}
static bool holds(const assertion *as) { return as->o == leq ? sat_leq(tval(as->x), as->v) : sat_geq(tval(as->x), as->v); }

// value of a SAT literal under the assignment induced by (X, Y); known = it is an assertion literal or a constant
static bool aval(lra_theory &th, const lit &p, bool &known)
{
  const var v = variable(p);
  known = true;
  if (v == FALSE_var) return !sign(p);
  auto it = th.v_asrts.find(v);
  if (it == th.v_asrts.end()) { known = false; return false; }
  const bool h = holds(it->second);
  return sign(p) ? h : !h;
}
static bool point_sat_assigned(sat_core &s, lra_theory &th, bool root_only)
{
  bool ok = true;
  for (const auto &va : th.v_asrts)
  {
    const lit b = va.second->b;
    if (root_only && s.level[variable(b)] != 0) continue;
    const lbool v = s.value(b);
    if (v == True) ok = ok & holds(va.second);
    if (v == False) ok = ok & !holds(va.second);
  }
  return ok;
}
static void note_new_vars(lra_theory &th, int c1, int c2)
{ // a request over c1*x + c2*y may have created one slack variable standing for exactly that expression
  while (ntv < (int)th.vals.size()) { CHECK(ntv < MAXTV, "harness bound on theory variables"); cx[ntv] = c1; cy[ntv] = c2; ck[ntv] = 0; ntv++; }
}

static void check_state(sat_core &s, lra_theory &th)
{
  // (V) concrete checks on the reported model
  for (const auto &va : th.v_asrts)
  {
    const assertion *as = va.second;
    const lbool v = s.value(as->b);
    const inf_rational val = th.value(as->x);
    if (v == True) CHECK(as->o == leq ? val <= as->v : val >= as->v, "(V) an asserted constraint holds for the reported values");
    if (v == False) CHECK(as->o == leq ? val > as->v : val < as->v, "(V) a negated constraint is violated by the reported values (strictly, through the infinitesimal)");
  }
  for (const auto &tr : th.tableau)
  {
    inf_rational sum(tr.second->l.known_term);
    for (const auto &vc : tr.second->l.vars) sum += th.value(vc.first) * vc.second;
    CHECK(th.value(tr.first) == sum, "(V) every defining equation of the tableau holds for the reported values");
  }
  for (size_t v = 0; v < th.vals.size(); v++)
    CHECK(th.lb(v) <= th.value(v) && th.value(v) <= th.ub(v), "(V) every reported value lies within the reported bounds");
  // (S)
  const bool ps = point_sat_assigned(s, th, false);
  for (size_t v = 0; v < th.vals.size(); v++)
    CHECK(!ps || (sat_geq(tval(v), th.lb(v)) && sat_leq(tval(v), th.ub(v))), "(S) the reported bounds contain every solution of the asserted constraints");
  // (S') bounds / lb / ub / value of linear EXPRESSIONS (lra_theory::bounds(lin) etc.): contain the expression's value in every solution,
  //      and value(expr) is the expression evaluated on the reported values
  {
    const int ec[2][2] = {{1, -1}, {-2, -1}};
    for (int e = 0; e < 2; e++)
    {
      lin ex = lin(0, rational(ec[e][0])) + lin(1, rational(ec[e][1])) + lin(rational(1));
      const auto b = th.bounds(ex);
      const long v = (long)ec[e][0] * X + (long)ec[e][1] * Y + 1;
      CHECK(!ps || (sat_geq(v, b.first) && sat_leq(v, b.second)), "(S') bounds(expression) contain the expression's value in every solution");
      CHECK(b.first == th.lb(ex) && b.second == th.ub(ex), "(S') lb(expr) / ub(expr) agree with bounds(expr)");
      CHECK(th.value(ex) == th.value(0) * rational(ec[e][0]) + th.value(1) * rational(ec[e][1]) + rational(1), "(S') value(expression) is the expression on the reported values");
    }
  }
  // (L), (E): `a` ranges over ALL SAT assignments that agree with (X, Y) on the assertion literals and satisfy the
  // definitional clauses that existed before the history started (conjunction variables of new_eq)
  bool link = !a[0];
  for (const auto &va : th.v_asrts) link = link & (lval(va.second->b) == holds(va.second));
  size_t ci = 0;
  bool defs = true; // definitional clauses and root-level assignments (conflict analysis drops root-level literals from learnt clauses)
  for (size_t v = 1; v < s.assigns.size(); v++)
    if (s.assigns[v] != Undefined && s.level[v] == 0) defs = defs & (a[v] == (s.assigns[v] == True));
  for (auto c : s.constrs)
  {
    clause *k = static_cast<clause *>(c);
    bool sat = false;
    for (auto &l : k->lits) sat = sat | lval(l);
    if (ci < n_defs) defs = defs & sat;
    else CHECK(!(link && defs) || sat, "(L) every learnt clause / explanation is valid under the meaning of the assertion literals and the root-level assignments");
    ci++;
  }
  // (E0) root-level assignments are premises of (L) above and of (E) below, so they are checked on their own against the PROBLEM: definitional
  // clauses, the scenario's clauses and root facts (a wrongly learnt unit clause shows up here and nowhere else)
  {
    bool prob = link;
    ci = 0;
    for (auto c : s.constrs)
    {
      if (ci >= n_defs) break;
      clause *k = static_cast<clause *>(c);
      bool sat = false;
      for (auto &l : k->lits) sat = sat | lval(l);
      prob = prob & sat; ci++;
    }
    for (int i = 0; i < n_proot; i++) prob = prob & lval(lit(proot[i] >> 1, proot[i] & 1));
    for (size_t v = 1; v < s.assigns.size(); v++)
      if (s.assigns[v] != Undefined && s.level[v] == 0)
        CHECK(!prob || a[v] == (s.assigns[v] == True), "(E0) a root-level assignment is entailed by the problem's clauses, root facts and the meaning of the assertion literals");
  }
  bool rest = true; // all stored clauses, root assignments and standing decisions
  for (auto c : s.constrs) { clause *k = static_cast<clause *>(c); bool sat = false; for (auto &l : k->lits) sat = sat | lval(l); rest = rest & sat; }
  for (size_t v = 1; v < s.assigns.size(); v++)
    if (s.assigns[v] != Undefined && s.level[v] == 0) rest = rest & (a[v] == (s.assigns[v] == True));
  for (const auto &d : s.decisions) rest = rest & lval(d);
  for (size_t v = 1; v < s.assigns.size(); v++)
    if (s.assigns[v] != Undefined)
      CHECK(!(link && rest) || a[v] == (s.assigns[v] == True), "(E) an assigned literal is entailed by the clauses, the meaning of the assertion literals and the standing decisions");
}
static void check_unsat(sat_core &s, lra_theory &th, const lit *extra)
{ // inconsistency at root level: no grid point together with a SAT assignment may satisfy the root-level problem
  bool ok = !a[0];
  for (const auto &va : th.v_asrts) ok = ok & (lval(va.second->b) == holds(va.second));
  if (extra) ok = ok & lval(*extra);
  for (auto c : s.constrs) { clause *k = static_cast<clause *>(c); bool sat = false; for (auto &l : k->lits) sat = sat | lval(l); ok = ok & sat; }
  for (size_t v = 1; v < s.assigns.size(); v++)
    if (s.assigns[v] != Undefined && s.level[v] == 0) ok = ok & (a[v] == (s.assigns[v] == True));
  CHECK(!ok, "(C) inconsistency is reported only if no point satisfies the root-level constraints");
}
// (R) premise: a is a model of the SAT core and agrees with (X, Y) on every assertion literal
static bool premise(sat_core &s, lra_theory &th)
{
  bool ok = !a[0];
  for (size_t v = 0; v < s.assigns.size(); ++v)
    if (s.assigns[v] != Undefined && s.level[v] == 0) ok = ok & (a[v] == (s.assigns[v] == True));
  for (auto c : s.constrs)
  {
    clause *k = static_cast<clause *>(c);
    bool sat = false;
    for (auto &l : k->lits) sat = sat | lval(l);
    ok = ok & sat;
  }
  for (const auto &va : th.v_asrts) ok = ok & (lval(va.second->b) == holds(va.second));
  return ok;
}

static int P;
static int rdp() { return PARAM(P++); }

__attribute__((noinline)) static void scenario()
{
  sat_core &s = *new sat_core();
  lra_theory &th = *new lra_theory(s);
  const var x = th.new_var(), y = th.new_var();
  cx[0] = 1; cy[0] = 0; cx[1] = 0; cy[1] = 1; ck[0] = ck[1] = 0; ntv = 2; n_proot = 0;
  var zvar[4] = {0, 0, 0, 0}; bool zmade[4] = {false, false, false, false};
  auto ensure_z = [&](int t)
  {
    if (zmade[t]) return;
    lin zl = lin(rational((I)ZT[t][2]));
    if (ZT[t][0]) zl.vars.emplace(x, rational(ZT[t][0]));
    if (ZT[t][1]) zl.vars.emplace(y, rational(ZT[t][1]));
    zvar[t] = th.new_var(zl);
    while (ntv < (int)th.vals.size()) { CHECK(ntv < MAXTV, "harness bound on theory variables"); cx[ntv] = ZT[t][0]; cy[ntv] = ZT[t][1]; ck[ntv] = ZT[t][2]; ntv++; }
    zmade[t] = true;
  };
  const int NR = rdp();
  size_t rl[MAXR]; int rrel[MAXR], rc1[MAXR], rc2[MAXR], rkn[MAXR], rkd[MAXR], rex[MAXR]; bool made[MAXR];
  auto request = [&](int i)
  {
    lin left;
    lin right(rational(rkn[i], rkd[i]));
    int ec1 = rc1[i], ec2 = rc2[i], ekn = rkn[i]; // the relation in terms of x and y:  ec1*x + ec2*y  REL  ekn/kd
    if (rex[i] >= 100)
    { // c1*z_t + c2*y REL k, with z_t = za*x + zb*y + zk a variable that is basic in the tableau (its row has a constant term)
      const int t = rex[i] - 100;
      if (rc1[i]) left.vars.emplace(zvar[t], rational(rc1[i]));
      if (rc2[i]) { auto itv = left.vars.find(y); if (itv == left.vars.end()) left.vars.emplace(y, rational(rc2[i])); else itv->second += rational(rc2[i]); }
      ec1 = rc1[i] * ZT[t][0]; ec2 = rc1[i] * ZT[t][1] + rc2[i]; ekn = rkn[i] - rc1[i] * ZT[t][2] * rkd[i];
    }
    else
    {
      if (rc1[i] + rex[i]) left.vars.emplace(x, rational(rc1[i] + rex[i]));
      if (rc2[i] + rex[i]) left.vars.emplace(y, rational(rc2[i] + rex[i]));
      if (rex[i]) { right.vars.emplace(x, rational(rex[i])); right.vars.emplace(y, rational(rex[i])); }
    }
    // bounds visible before the request
    inf_rational lb0[MAXTV], ub0[MAXTV]; const size_t nb = th.vals.size();
    for (size_t v = 0; v < nb; v++) { lb0[v] = th.lb(v); ub0[v] = th.ub(v); }
    lit r;
    switch (rrel[i])
    {
    case 0: r = th.new_lt(left, right); break;
    case 1: r = th.new_leq(left, right); break;
    case 2: r = th.new_eq(left, right); break;
    case 3: r = th.new_geq(left, right); break;
    default: r = th.new_gt(left, right); break;
    }
    rl[i] = index(r); made[i] = true;
    rc1[i] = ec1; rc2[i] = ec2; rkn[i] = ekn;
    note_new_vars(th, rc1[i], rc2[i]);
    CHECK(s.assigns.size() <= MAXV, "harness bound on SAT variables");
    for (size_t v = 0; v < nb; v++) CHECK(th.lb(v) == lb0[v] && th.ub(v) == ub0[v], "(R) requesting a literal leaves every earlier bound unchanged");
  };
  auto meaning = [&]()
  { // (R) meaning of every literal requested so far
    if (premise(s, th))
      for (int i = 0; i < NR; i++)
      {
        if (!made[i]) continue;
        const long lhs = ((long)rc1[i] * X + (long)rc2[i] * Y) * rkd[i], rhs = rkn[i]; // compare lhs/kd with kn/kd
        bool rel;
        switch (rrel[i]) { case 0: rel = lhs < rhs; break; case 1: rel = lhs <= rhs; break; case 2: rel = lhs == rhs; break; case 3: rel = lhs >= rhs; break; default: rel = lhs > rhs; break; }
        CHECK(lval(lit(rl[i] >> 1, rl[i] & 1)) == rel, "(R) a relation literal is true exactly when its relation holds");
      }
  };
  for (int i = 0; i < NR; i++)
  {
    rrel[i] = rdp(); rc1[i] = rdp(); rc2[i] = rdp(); rkn[i] = rdp(); rkd[i] = rdp(); rex[i] = rdp();
    made[i] = false; rl[i] = 0;
    if (rex[i] >= 100) ensure_z(rex[i] - 100);
    if (rrel[i] >= 10) rrel[i] -= 10; else request(i);
  }
  meaning();
  n_defs = s.constrs.size();
  bool alive = true;
  inf_rational snap_lb[4][MAXTV], snap_ub[4][MAXTV]; size_t snap_n[4] = {0, 0, 0, 0}, snap_cl[4] = {~0ul, ~0ul, ~0ul, ~0ul}, snap_tr[4] = {0, 0, 0, 0};
  if (!s.propagate()) { check_unsat(s, th, nullptr); alive = false; }
  else check_state(s, th);
  const int H = rdp();
  for (int h = 0; h < H; h++)
  {
    const int op = rdp(), ri = rdp(), sg = rdp();
    if (!alive) continue;
    if (op == 4)
    { // late request (root level): the literal must still mean its relation, whatever the bounds are by now
      if (!s.root_level() || !s.prop_q.empty() || made[ri]) continue;
      request(ri);
      n_defs = s.constrs.size();
      meaning();
      if (!s.propagate()) { check_unsat(s, th, nullptr); alive = false; }
      else check_state(s, th);
      continue;
    }
    if (op == 5)
    { // binary clause between two relation literals at root level: ONE later decision then tightens several bounds in one level
      const int s1 = sg & 1, s2 = (sg >> 1) & 1, r2 = sg >> 2;
      if (!made[ri] || !made[r2] || !s.root_level() || !s.prop_q.empty()) continue;
      lit l1(rl[ri] >> 1, rl[ri] & 1), l2(rl[r2] >> 1, rl[r2] & 1);
      if (!s1) l1 = !l1;
      if (!s2) l2 = !l2;
      if (!s.new_clause({l1, l2}) || !s.propagate())
      {
        bool ok = !a[0] && (lval(l1) || lval(l2));
        for (const auto &va : th.v_asrts) ok = ok & (lval(va.second->b) == holds(va.second));
        for (auto c : s.constrs) { clause *k = static_cast<clause *>(c); bool sat = false; for (auto &l : k->lits) sat = sat | lval(l); ok = ok & sat; }
        for (size_t v = 1; v < s.assigns.size(); v++) if (s.assigns[v] != Undefined && s.level[v] == 0) ok = ok & (a[v] == (s.assigns[v] == True));
        CHECK(!ok, "(C) a clause is refused only if no point satisfies the root-level constraints together with it");
        alive = false;
      }
      else { n_defs = s.constrs.size(); check_state(s, th); } // the scenario's own clause is a premise like the definitional ones (nothing was learnt at root level in between)
      continue;
    }
    if (!made[ri]) continue;
    lit l(rl[ri] >> 1, rl[ri] & 1);
    if (!sg) l = !l;
    const bool constant = variable(l) == FALSE_var;
    switch (op)
    {
    case 0:
    {
      if (constant || s.value(l) != Undefined || !s.prop_q.empty()) break;
      const size_t lv = s.decision_level();
      if (lv < 4)
      { // C08: snapshot of every bound before the decision
        snap_n[lv] = th.vals.size(); snap_cl[lv] = s.constrs.size(); snap_tr[lv] = s.trail.size();
        for (size_t v = 0; v < th.vals.size() && v < MAXTV; v++) { snap_lb[lv][v] = th.lb(v); snap_ub[lv][v] = th.ub(v); }
      }
      if (!s.assume(l)) { check_unsat(s, th, nullptr); alive = false; }
      else check_state(s, th);
      break;
    }
    case 1:
      if (s.root_level()) break;
      s.pop();
      {
        const size_t lv = s.decision_level();
        if (lv < 4 && snap_cl[lv] == s.constrs.size() && snap_tr[lv] == s.trail.size() && snap_n[lv] == th.vals.size())
          for (size_t v = 0; v < th.vals.size() && v < MAXTV; v++)
            CHECK(th.lb(v) == snap_lb[lv][v] && th.ub(v) == snap_ub[lv][v], "(C08) pop restores every bound to its value before the undone decision");
      }
      if (!s.propagate()) { check_unsat(s, th, nullptr); alive = false; } // values are repaired lazily by the next check()
      else check_state(s, th);
      break;
    case 2:
      if (!s.root_level() || !s.prop_q.empty()) break;
      if (n_proot < 16) proot[n_proot++] = index(l);
      if (!s.new_clause({l}) || !s.propagate()) { check_unsat(s, th, &l); alive = false; }
      else check_state(s, th);
      break;
    default:
    {
      if (constant || s.value(l) != Undefined || !s.prop_q.empty()) break;
      bool kn; const bool lv = aval(th, l, kn);
      const bool prem = point_sat_assigned(s, th, false) && (!kn || lv);
      const bool r = s.check({l});
      if (!r && kn) CHECK(!prem, "check answers false only if the constraints together with the assumption are unsatisfiable");
      if (s.prop_q.empty() && s.propagate()) check_state(s, th);
      break;
    }
    }
  }
}

extern "C" void h_lra()
{
  X = nondet_int(); Y = nondet_int();
  ASSUME(X >= -RG && X <= RG && Y >= -RG && Y <= RG);
  for (int i = 0; i < MAXV; i++) a[i] = nondet_bool();
  P = 0;
  const int K = rdp();
  for (int k = 0; k < K; k++)
  {
    const int len = rdp();
    const int end = P + len;
    scenario();
    P = end;
  }
  WITNESS_POINT();
}
