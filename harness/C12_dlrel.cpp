// C12 — difference-logic relation literals (new_lt / new_leq / new_eq / new_geq / new_gt) mean their relation, and the
// expression queries (bounds / distance / equates on lin) agree with the variable-level distances.
//
// -DRDL selects rdl_theory, otherwise idl_theory.  Two time points x1, x2 besides the origin.
// A scenario (concrete): up to 2 root-level pre-constraints, then ONE request.
//   P: NP, NP x (from, to, d)                       pre-constraints `to - from <= d`, asserted at root level
//      KIND                                          0..4 relation literal lt/leq/eq/geq/gt, 5 bounds(l), 6 distance(l, r), 7 equates(l, r)
//      l1, l2, lkn, lkd,  r1, r2, rkn, rkd           left = l1*x1 + l2*x2 + lkn/lkd,  right likewise
// symbolic: the time-point assignment (X[i] = 2*x[i], so that half-integers are representable for rdl; even for idl) and a
// total assignment of the SAT variables.  The literal check is semantic and needs no search: for EVERY x and EVERY total
// assignment `a` that (i) satisfies the clause database and root assignments and (ii) gives every distance literal b of the
// theory the truth value of its constraint `to - from <= dist` under x, the returned literal has the value of the relation.
#include "sat_core.h"
#include "clause.h"
#ifdef RDL
#include "rdl_theory.h"
typedef smt::rdl_theory TH;
#else
#include "idl_theory.h"
typedef smt::idl_theory TH;
#endif
#include "verif.h"
using namespace smt;

#define RX 12
#define MAXV 12
static int X[3];      // 2 * value of origin (0), x1, x2
static bool a[MAXV];  // total assignment of the SAT variables

static inline bool lval(const lit &p) { return sign(p) ? a[variable(p)] : !a[variable(p)]; }

// 2 * (to - from) <= 2 * dist   (dist integer for idl; q + e*eps for rdl: e < 0 makes it strict)
template <typename D>
static bool holds2(const D *d)
{
  const long diff = (long)X[d->to] - (long)X[d->from];
#ifdef RDL
  const rational q = d->dist.get_rational(), e = d->dist.get_infinitesimal();
  // diff / 2 <= q  <=>  diff * den <= 2 * num   (den > 0)
  return is_negative(e) ? diff * q.denominator() < 2 * q.numerator() : diff * q.denominator() <= 2 * q.numerator();
#else
  return diff <= 2 * d->dist;
#endif
}
// premise: `a` is a model of the SAT core and agrees with x on every distance literal
static bool premise(sat_core &s, TH &th)
{
  bool ok = !a[0] && X[0] == 0;
#ifndef RDL
  ok = ok & ((X[1] & 1) == 0) & ((X[2] & 1) == 0);
#endif
  for (size_t v = 0; v < s.assigns.size(); ++v)
    if (s.assigns[v] != Undefined) ok = ok & (a[v] == (s.assigns[v] == True));
  for (auto c : s.constrs)
  {
    clause *k = static_cast<clause *>(c);
    bool sat = false;
    for (auto &l : k->lits) sat = sat | lval(l);
    ok = ok & sat;
  }
  for (const auto &vd : th.var_dists) ok = ok & (lval(vd.second->b) == holds2(vd.second));
  return ok;
}
// x respects the reported distance matrix (it is a solution of the asserted constraints)
static bool in_matrix(TH &th)
{
  bool ok = X[0] == 0;
#ifndef RDL
  ok = ok & ((X[1] & 1) == 0) & ((X[2] & 1) == 0);
#endif
  for (int i = 0; i < 3; i++) for (int j = 0; j < 3; j++)
  {
#ifdef RDL
    const inf_rational d = th._dists[i][j];
    if (is_infinite(d)) continue;
    const long dn = d.get_rational().numerator(), dd = d.get_rational().denominator();
    ok = ok & (is_negative(d.get_infinitesimal()) ? ((long)X[j] - X[i]) * dd < 2 * dn : ((long)X[j] - X[i]) * dd <= 2 * dn);
#else
    if (th._dists[i][j] == TH::inf()) continue;
    ok = ok & ((long)X[j] - X[i] <= 2 * th._dists[i][j]);
#endif
  }
  return ok;
}

static int P;
static int rdp() { return PARAM(P++); }
struct ex { int c1, c2, kn, kd; };
static ex rdex() { ex e; e.c1 = rdp(); e.c2 = rdp(); e.kn = rdp(); e.kd = rdp(); return e; }
static lin mk(const ex &e, var t1, var t2)
{
  lin l;
  if (e.c1) l.vars.emplace(t1, rational(e.c1));
  if (e.c2) l.vars.emplace(t2, rational(e.c2));
  l.known_term = rational(e.kn, e.kd);
  return l;
}
// 2 * kd-scaled value of an expression under X:  returns numerator of  2*e(x)  over denominator kd  (kd in {1,2})
static long val2(const ex &e) { return (long)e.c1 * X[1] + (long)e.c2 * X[2] + 2L * e.kn / e.kd; } // 2*k is an integer for kd in {1,2}

__attribute__((noinline)) static void scenario()
{
  sat_core &s = *new sat_core();
  TH &th = *new TH(s, 4);
  const var t1 = th.new_var(), t2 = th.new_var();
  const var tp[3] = {0, t1, t2};
  const int NP = rdp();
  bool alive = true;
  for (int i = 0; i < NP; i++)
  {
    const int f = rdp(), t = rdp(), d = rdp();
    if (!alive) continue;
#ifdef RDL
    lit l = th.new_distance(tp[f], tp[t], inf_rational(rational(d)));
#else
    lit l = th.new_distance(tp[f], tp[t], d);
#endif
    if (!s.new_clause({l}) || !s.propagate()) alive = false;
  }
  const int kind = rdp();
  const ex L = rdex(), Rr = rdex();
  if (!alive) return; // inconsistent pre-constraints: nothing to request
  const lin left = mk(L, t1, t2), right = mk(Rr, t1, t2);
  // is left - right a difference expression?   a1*x1 + a2*x2 + k  with  a1 == -a2 (two variables) or one / no variable,
  // and, for idl, k / a integer
  const int a1 = L.c1 - Rr.c1, a2 = L.c2 - Rr.c2;
  const rational k = rational(L.kn, L.kd) - rational(Rr.kn, Rr.kd);
  bool valid = (a1 == 0 || a2 == 0 || a1 == -a2);
#ifndef RDL
  if (valid && (a1 != 0 || a2 != 0)) valid = is_integer(k / rational(a1 != 0 ? a1 : a2));
#endif
  // snapshot of everything visible at root level
  std::vector<std::vector<decltype(th._dists[0][0] + th._dists[0][0])>> before = th._dists;
  const size_t nv0 = s.assigns.size();
  lbool asg0[MAXV];
  for (size_t v = 0; v < nv0; v++) asg0[v] = s.assigns[v];

  if (kind <= 4)
  {
    lit r; bool threw = false;
    try
    {
      switch (kind)
      {
      case 0: r = th.new_lt(left, right); break;
      case 1: r = th.new_leq(left, right); break;
      case 2: r = th.new_eq(left, right); break;
      case 3: r = th.new_geq(left, right); break;
      default: r = th.new_gt(left, right); break;
      }
    }
    catch (...) { threw = true; }
    CHECK(s.assigns.size() <= MAXV, "harness bound on SAT variables");
    if (valid) CHECK(!threw, "a relation between difference expressions is accepted");
    if (!threw)
    {
      const long dl = val2(L) - val2(Rr); // 2 * (left - right)
      bool rel;
      switch (kind) { case 0: rel = dl < 0; break; case 1: rel = dl <= 0; break; case 2: rel = dl == 0; break; case 3: rel = dl >= 0; break; default: rel = dl > 0; break; }
      if (premise(s, th)) CHECK(lval(r) == rel, "the returned literal is true exactly when the relation holds");
      // requesting a literal changes nothing that was visible before
      for (int i = 0; i < 3; i++) for (int j = 0; j < 3; j++) CHECK(th._dists[i][j] == before[i][j], "requesting a literal leaves the root distances unchanged");
      for (size_t v = 0; v < nv0; v++) CHECK(s.assigns[v] == asg0[v], "requesting a literal leaves earlier SAT values unchanged");
    }
    return;
  }
  // expression queries: compare with the exact range over the solutions described by the distance matrix
  const bool sol = in_matrix(th);
  if (kind == 5)
  { // bounds(left): lb <= left(x) <= ub for every solution x, and both bounds are attained (checked through the matrix)
    bool threw = false;
    std::pair<decltype(th.bounds(left).first), decltype(th.bounds(left).second)> b;
    try { b = th.bounds(left); } catch (...) { threw = true; }
    const bool ok_expr = (L.c1 == 0 || L.c2 == 0 || L.c1 == -L.c2);
    if (!threw)
    {
      CHECK(ok_expr, "bounds answers only for a difference expression");
#ifdef RDL
      const long lo2 = is_infinite(b.first) ? -1000000 : 2 * b.first.get_rational().numerator() / b.first.get_rational().denominator();
      const long hi2 = is_infinite(b.second) ? 1000000 : 2 * b.second.get_rational().numerator() / b.second.get_rational().denominator();
#else
      const long lo2 = b.first <= -TH::inf() / 2 ? -1000000 : 2 * b.first, hi2 = b.second >= TH::inf() / 2 ? 1000000 : 2 * b.second;
#endif
      CHECK(!sol || (lo2 <= val2(L) && val2(L) <= hi2), "bounds(expr) contain the value of the expression in every solution");
      // tightness against the variable-level distances: expr = c*(xa - xb) + k or c*xa + k
      if (L.c1 != 0 || L.c2 != 0)
      {
        const int c = L.c1 != 0 ? L.c1 : L.c2;
        const int va = L.c1 != 0 ? 1 : 2, vb = (L.c1 != 0 && L.c2 != 0) ? 2 : 0; // expr = c*(x_va - x_vb) + k  (vb = origin for one variable)
        auto dst = th.distance(tp[vb], tp[va]);                                      // range of x_va - x_vb
#ifdef RDL
        const bool lo_inf = is_infinite(dst.first), hi_inf = is_infinite(dst.second);
        const long dlo2 = lo_inf ? 0 : 2 * dst.first.get_rational().numerator() / dst.first.get_rational().denominator();
        const long dhi2 = hi_inf ? 0 : 2 * dst.second.get_rational().numerator() / dst.second.get_rational().denominator();
#else
        const bool lo_inf = dst.first <= -TH::inf() / 2, hi_inf = dst.second >= TH::inf() / 2;
        const long dlo2 = lo_inf ? 0 : 2 * dst.first, dhi2 = hi_inf ? 0 : 2 * dst.second;
#endif
        const long k2 = 2L * L.kn / L.kd;
        const bool e_lo_inf = c > 0 ? lo_inf : hi_inf, e_hi_inf = c > 0 ? hi_inf : lo_inf;
        const long e_lo2 = c > 0 ? c * dlo2 + k2 : c * dhi2 + k2, e_hi2 = c > 0 ? c * dhi2 + k2 : c * dlo2 + k2;
        CHECK(e_lo_inf ? lo2 <= -1000000 : lo2 == e_lo2, "lower bound of the expression agrees with the variable-level distance");
        CHECK(e_hi_inf ? hi2 >= 1000000 : hi2 == e_hi2, "upper bound of the expression agrees with the variable-level distance");
      }
    }
    return;
  }
  if (kind == 6)
  { // distance(left, right) = range of right - left
    bool threw = false;
    auto d = th.distance(t1, t2);
    try { d = th.distance(left, right); } catch (...) { threw = true; }
    if (valid) CHECK(!threw, "distance between difference expressions is accepted");
    if (!threw)
    {
#ifdef RDL
      const long lo2 = is_infinite(d.first) ? -1000000 : 2 * d.first.get_rational().numerator() / d.first.get_rational().denominator();
      const long hi2 = is_infinite(d.second) ? 1000000 : 2 * d.second.get_rational().numerator() / d.second.get_rational().denominator();
#else
      const long lo2 = d.first <= -TH::inf() / 2 ? -1000000 : 2 * d.first, hi2 = d.second >= TH::inf() / 2 ? 1000000 : 2 * d.second;
#endif
      const long v = val2(Rr) - val2(L);
      CHECK(!sol || (lo2 <= v && v <= hi2), "distance(from, to) contains to - from in every solution");
    }
    return;
  }
  { // equates(left, right): must answer true whenever some solution makes the two expressions equal
    bool threw = false, eq = false;
    try { eq = th.equates(left, right); } catch (...) { threw = true; }
    if (!threw) CHECK(!(sol && val2(L) == val2(Rr)) || eq, "equates answers true whenever a solution makes the two expressions equal");
  }
}

extern "C" void h_rel()
{
  for (int i = 0; i < 3; i++) { X[i] = nondet_int(); ASSUME(X[i] >= -RX && X[i] <= RX); }
  for (int i = 0; i < MAXV; i++) a[i] = nondet_bool();
  P = 0;
  const int K = rdp();
  for (int k = 0; k < K; k++)
  {
    const int len = rdp();
    const int end = P + len;
    scenario();
    P = end;
  }
  WITNESS_POINT();
}
