"""check driver: build -> cbmc -> classify -> replay -> evidence."""
import os, sys, re, json, time, shutil, subprocess, importlib, hashlib, traceback
from concurrent.futures import ThreadPoolExecutor, as_completed

sys.path.insert(0, os.path.dirname(os.path.abspath(__file__)))
import pipeline as P

VERIF = P.VERIF
REPO = P.REPO
NCPU = int(os.environ.get('VERIF_JOBS', '16'))
HANG_LABEL = 'a loop of the code under test does not terminate (unwinding assertion failed; the native run of the same inputs hangs or aborts)'


class Job:
    """one cbmc query (= one harness entry point under one set of compile-time parameters)"""

    def __init__(self, name, harness, entry, units, unwind, defs=(), flags=(), narrow=0, timeout=300, mem=10,
                 desc='', bounds=None, kf=(), kfonly=None, unwindset=(), backend=(), params=()):
        self.name = name; self.harness = harness; self.entry = entry; self.units = tuple(units)
        self.unwind = unwind; self.defs = tuple(defs); self.flags = tuple(flags); self.narrow = narrow
        self.timeout = timeout; self.mem = mem; self.desc = desc; self.bounds = bounds or {}
        self.kf = tuple(kf)          # ids of known findings this job may be subject to (excluded by -DKF_<id> when listed open)
        self.kfonly = kfonly         # id of the known finding this job reproduces (expected to FAIL)
        self.unwindset = tuple(unwindset); self.backend = tuple(backend)
        self.only_labels = None      # C18: only failures whose label contains one of these substrings count
        self.members = None          # batch job: list of member Jobs (same harness/entry); params = [K, n1, p1.., n2, p2..]
        self.params = tuple(params)  # concrete shape parameters, passed to cbmc as -DVERIF_PARAMS=v0,v1,...
        self.result = None

    def pflags(self):
        if not self.params:
            return []
        return ['-D', 'VERIF_PARAMS=' + ','.join(str(int(v)) for v in self.params)]

    def group_key(self):
        return (self.harness, self.defs, self.narrow, self.units)


def load_known():
    p = os.path.join(VERIF, 'known_findings.json')
    if not os.path.exists(p):
        return {'findings': [], 'fixed': []}
    return json.load(open(p))


def sh(cmd, timeout=None, env=None, cwd=None):
    return subprocess.run(cmd, stdout=subprocess.PIPE, stderr=subprocess.STDOUT, text=True, timeout=timeout, env=env, cwd=cwd)


class Check:
    def __init__(self, pid, tier, keep=False, only=None):
        self.pid = pid; self.tier = tier; self.keep = keep; self.only = only
        self.spec = importlib.import_module('specs.' + pid)
        self.bdir = os.path.join(VERIF, 'build', '%s-%s%s' % (pid, tier, os.environ.get('VERIF_BUILD_TAG', '')))   # VERIF_BUILD_TAG lets two runs of one check coexist (seeded-change runs)
        self.t0 = time.time()
        self.known = load_known()
        self.open_kf = {f['id']: f for f in self.known.get('findings', []) if f['property'] == pid}
        self.log = []
        self.unit_ir = {}
        self.groups = {}
        self.native_objs = None

    def say(self, *a):
        msg = ' '.join(str(x) for x in a)
        self.log.append(msg)
        print(msg, flush=True)

    # ------------------------------------------------------------------ build
    def build_unit(self, u):
        out = os.path.join(self.bdir, 'ir', u.replace('/', '_') + '.ll')
        P.emit_ir(os.path.join(REPO, u), out)
        return u, out

    def build_group(self, key, entries):
        harness, defs, narrow, units = key
        h = hashlib.sha1(repr(key).encode()).hexdigest()[:10]
        base = os.path.join(self.bdir, 'g', '%s-%s' % (os.path.splitext(harness)[0], h))
        hll = base + '.h.ll'
        P.emit_ir(os.path.join(VERIF, 'harness', harness), hll, defs=defs)
        red = base + '.red.ll'
        P.link_reduce([self.unit_ir[u] for u in units] + [hll], sorted(entries), red)
        c = base + '.c'
        P.translate(red, c, narrow=narrow, entries=sorted(entries))
        nfun = len(re.findall(r'^define ', open(red).read(), re.M))
        for f in (hll,):
            os.unlink(f)
        return key, c, red, nfun

    # ------------------------------------------------------------------ run
    def run_job(self, job, cfile):
        flags = list(job.flags) + job.pflags()
        r = P.cbmc(cfile, job.entry, job.unwind, flags=flags + list(job.backend), timeout=job.timeout, mem_gb=job.mem, unwindset=job.unwindset)
        return r

    def classify(self, job, r):
        """-> (verdict, labels)   verdict in pass | fail | inconclusive"""
        if r['status'] == 'timeout':
            return 'inconclusive', ['timeout after %ss' % job.timeout]
        if r['status'] == 'error':
            tail = (r['out'] or '')[-600:]
            return 'inconclusive', ['cbmc error/oom: ' + tail.replace('\n', ' | ')]
        failed = r['failed']
        labels = [d for (_, d) in failed]
        unw = [d for d in labels if 'unwinding assertion' in d or 'recursion unwinding' in d]
        wit = [d for d in labels if d == 'WITNESS']
        real = [(n, d) for (n, d) in failed if d not in unw and d != 'WITNESS']
        if job.only_labels is not None:
            real = [(n, d) for (n, d) in real if any(k in d for k in job.only_labels)]
        hb = sorted(set(d for (_, d) in real if d.startswith('harness bound')))
        if hb:
            # a size bound of the HARNESS (array of SAT / theory variables) was exceeded: its oracles are not meaningful beyond it and the property
            # says nothing about such bounds, so this is 'no verdict', never a violation
            return 'inconclusive', ['harness bound exceeded (oracle arrays too small for this code; enlarge them): ' + ', '.join(hb)]
        if real:
            return 'fail', real
        if unw:
            return 'inconclusive', ['unwind bound too small: ' + ', '.join(sorted(set(unw)))]
        if not wit:
            return 'inconclusive', ['VACUOUS: witness assertion unreachable (assumptions unsatisfiable or end of harness not reached)']
        return 'pass', []

    # ------------------------------------------------------------------ replay
    def get_inputs(self, job, cfile, propname):
        cmd_flags = list(job.flags) + job.pflags() + ['--property', propname, '--trace', '--json-ui']
        r = P.cbmc(cfile, job.entry, job.unwind, flags=cmd_flags + list(job.backend), timeout=job.timeout * 2, mem_gb=job.mem, unwindset=job.unwindset)
        out = r['out'] or ''
        i = out.find('[')
        try:
            data, _ = json.JSONDecoder().raw_decode(out[i:])
        except Exception as e:
            return None, 'cannot parse json trace: %s' % e
        vals = []
        for e in data:
            if isinstance(e, dict) and 'result' in e:
                for res in e['result']:
                    if res.get('property') == propname and res.get('status') == 'FAILURE' and 'trace' in res:
                        for st in res['trace']:
                            if st.get('stepType') == 'assignment' and st.get('lhs') == '__ll2c_last_in' and not st.get('hidden'):
                                b = st['value'].get('binary')
                                if b is None:
                                    continue
                                v = int(b, 2)
                                if b[0] == '1' and len(b) == 64:
                                    v -= 1 << 64
                                vals.append(v)
                        return vals, None
        return None, 'no failing trace for %s in re-run (status %s)' % (propname, r['status'])

    def native_build(self, job):
        nd = os.path.join(self.bdir, 'native')
        os.makedirs(nd, exist_ok=True)
        inc = ['-I', P.HINC]
        for d in P.INCLUDES:
            inc += ['-I', os.path.join(REPO, d)]
        cxx = ['g++', '-std=c++17', '-O0', '-g', '-fno-access-control', '-w', '-DPSTLAB_ORATIO_VERIF']
        objs = []
        for u in job.units:
            o = os.path.join(nd, u.replace('/', '_') + '.o')
            if not os.path.exists(o):
                r = sh(cxx + inc + ['-c', os.path.join(REPO, u), '-o', o])
                if r.returncode != 0:
                    raise P.BuildError('native build failed for %s:\n%s' % (u, r.stdout[-3000:]))
            objs.append(o)
        exe = os.path.join(nd, 'replay-%s-%s' % (job.name.replace('/', '_'), job.entry))
        r = sh(cxx + inc + ['-D' + d for d in job.defs] + ['-DENTRY=' + job.entry, os.path.join(VERIF, 'harness', job.harness),
                            os.path.join(VERIF, 'harness', 'replay_rt.cpp')] + objs + ['-o', exe])
        if r.returncode != 0:
            raise P.BuildError('native harness build failed:\n%s' % r.stdout[-3000:])
        return exe

    def native_run(self, exe, infile, timeout=20):
        env = dict(os.environ); env['VERIF_REPLAY'] = infile
        try:
            r = sh([exe], timeout=timeout, env=env)
            return r.returncode, r.stdout
        except subprocess.TimeoutExpired as e:
            return 'timeout', (e.stdout or '') if isinstance(e.stdout, str) else ''

    def replay_verdict(self, rc, out, label):
        if rc == 'timeout':
            return True, 'native run did not terminate within the time limit (hang)'
        if rc == 1 and 'REPLAY-ASSERT-FAIL' in out:
            m = re.search(r'REPLAY-ASSERT-FAIL: (.*)', out)
            return True, 'native run fails harness assertion "%s"' % (m.group(1) if m else '?')
        if rc in (134, -6):
            return True, 'native run aborted (assert()/std::terminate): ' + out.strip().splitlines()[-1][:300] if out.strip() else 'native run aborted'
        if rc in (139, -11):
            return True, 'native run crashed with SIGSEGV'
        if rc == 77:
            return False, 'native run violated a harness assumption: ' + out.strip()[-200:]
        if rc == 0:
            return False, 'native run completed without failure'
        return False, 'native run exit code %s: %s' % (rc, out.strip()[-200:])

    def write_replay(self, job, label, vals):
        rd = os.path.join(VERIF, 'replays', self.pid + os.environ.get('VERIF_BUILD_TAG', ''))
        os.makedirs(rd, exist_ok=True)
        fn = os.path.join(rd, '%s.%s-%s.in' % (job.name.replace('/', '_'), re.sub(r'[^A-Za-z0-9]+', '_', label)[:40], hashlib.sha1(label.encode()).hexdigest()[:6]))
        with open(fn, 'w') as f:
            f.write('# property=%s job=%s\n' % (self.pid, job.name))
            f.write('# harness=%s entry=%s defs=%s\n' % (job.harness, job.entry, ' '.join(job.defs)))
            f.write('# units=%s\n' % ' '.join(job.units))
            f.write('# failing=%s\n' % label)
            f.write('# params=%s\n' % ','.join(str(x) for x in job.params))
            for v in vals:
                f.write('%d\n' % v)
        return fn

    # ------------------------------------------------------------------ main
    def run(self):
        shutil.rmtree(self.bdir, ignore_errors=True)
        os.makedirs(os.path.join(self.bdir, 'ir'))
        os.makedirs(os.path.join(self.bdir, 'g'))
        jobs = self.spec.jobs(self.tier)
        # known findings: open ones add an exclusion define + a reproducer job
        expanded = []
        for j in jobs:
            if j.kfonly:
                if j.kfonly in self.open_kf:
                    expanded.append(j)
                continue
            act = [k for k in j.kf if k in self.open_kf]
            if act:
                j.defs = tuple(j.defs) + tuple('KF_' + k for k in act)
            expanded.append(j)
        jobs = expanded
        if self.only:
            sel = []
            for j in jobs:   # a batch is replaced by those of its members that match
                if j.members:
                    sel += [m for m in j.members if re.search(self.only, m.name)]
                elif re.search(self.only, j.name):
                    sel.append(j)
            jobs = sel
        self.jobs = jobs
        units = sorted(set(u for j in jobs for u in j.units))
        self.say('[%s/%s] %d queries, %d repo units, building IR from %s' % (self.pid, self.tier, len(jobs), len(units), REPO))
        build_errors = []
        with ThreadPoolExecutor(NCPU) as ex:
            for fut in as_completed([ex.submit(self.build_unit, u) for u in units]):
                try:
                    u, out = fut.result(); self.unit_ir[u] = out
                except Exception as e:
                    build_errors.append(str(e))
        if build_errors:
            self.say('BUILD ERROR (repo units):\n' + '\n'.join(build_errors))
            return self.finish(build_failed=True)
        groups = {}
        for j in jobs:
            groups.setdefault(j.group_key(), set()).add(j.entry)
        cfiles = {}
        self.nfuncs = {}
        with ThreadPoolExecutor(NCPU) as ex:
            futs = [ex.submit(self.build_group, k, e) for k, e in groups.items()]
            for fut in as_completed(futs):
                try:
                    k, c, red, nfun = fut.result(); cfiles[k] = c; self.nfuncs[k] = nfun
                except Exception as e:
                    build_errors.append(str(e))
        if build_errors:
            self.say('BUILD ERROR (harness groups):\n' + '\n'.join(build_errors))
            return self.finish(build_failed=True)
        self.say('[%s] built %d translation units in %.1fs' % (self.pid, len(cfiles), time.time() - self.t0))
        # run heavier jobs first
        def run_round(batch):
            order = sorted(batch, key=lambda j: -j.timeout)
            par = max(1, min(NCPU, int(os.environ.get('VERIF_CBMC_PAR', NCPU))))
            with ThreadPoolExecutor(par) as ex:
                futs = {ex.submit(self.run_job, j, cfiles[j.group_key()]): j for j in order}
                for fut in as_completed(futs):
                    j = futs[fut]
                    try:
                        r = fut.result()
                    except Exception as e:
                        r = {'status': 'error', 'failed': [], 'out': traceback.format_exc(), 'wall': 0, 'rss_kb': 0}
                    v, labels = self.classify(j, r)
                    j.result = {'verdict': v, 'labels': labels, 'raw': r, 'cfile': cfiles[j.group_key()]}
                    if j.members is None or v != 'pass':
                        self.say('  %-44s %-12s %6.1fs %6dMB %s' % (j.name, v, r.get('wall', 0), r.get('rss_kb', 0) // 1024, '; '.join(l if isinstance(l, str) else l[1] for l in labels)[:160]))
        run_round(jobs)
        # batches: a passing batch passes all its members (they ran back to back in one cbmc process, one witness at the very end);
        # anything else is re-run member by member so that verdicts, traces and replays are per shape
        final = []
        redo = []
        for j in jobs:
            if j.members is None:
                final.append(j); continue
            if j.result['verdict'] == 'pass':
                n = len(j.members)
                for m in j.members:
                    raw = dict(j.result['raw']); raw['out'] = ''
                    for k in ('wall', 'solver_s'):
                        if raw.get(k): raw[k] = round(raw[k] / n, 3)
                    raw['n_props'] = (raw.get('n_props') or 0)
                    raw['batched_with'] = n
                    m.result = {'verdict': 'pass', 'labels': [], 'raw': raw, 'cfile': j.result['cfile']}
                    final.append(m)
            else:
                redo += j.members
        if redo:
            self.say('[%s] %d batch(es) did not pass as a whole: re-running %d shapes one by one' % (self.pid, len([j for j in jobs if j.members and j.result['verdict'] != 'pass']), len(redo)))
            run_round(redo)
            final += redo
        self.jobs = final
        return self.finish()

    def finish(self, build_failed=False):
        violations = []
        known_lines = []
        notes = []
        if not build_failed:
            tasks = []
            probes = []
            for j in self.jobs:
                res = j.result
                if res['verdict'] != 'fail':
                    if j.kfonly and res['verdict'] == 'pass':
                        notes.append('listed finding %s no longer reproduces (job %s passes); remove it from known_findings.json' % (j.kfonly, j.name))
                    # hang probe: an unwinding assertion failed although the scenario's control flow is concrete and the bound generous.  Either the
                    # bound is simply too small (then this stays 'no verdict') or a loop of the code under test does not terminate: the trace that
                    # reaches the unwinding assertion is replayed natively, and only a native hang / abort turns it into a violation.
                    if res['verdict'] == 'inconclusive' and j.members is None:
                        unw = [(n, d) for (n, d) in (res['raw'].get('failed') or []) if 'unwinding assertion' in d or 'recursion unwinding' in d]
                        if unw and len(probes) < 6:
                            probes.append((j, unw[0][0], HANG_LABEL))
                    continue
                # candidate violation(s): replay each distinct failing label (first property of each label)
                seen = set()
                for (pn, label) in res['labels']:
                    if label in seen:
                        continue
                    seen.add(label)
                    tasks.append((j, pn, label))
            # replaying is expensive (second cbmc run with a full trace): confirm at most 3 candidates per failing label and 24 in
            # total; the rest are listed as 'not replayed' and count as violations only through their label-mates
            per_label = {}
            kept, skipped = [], []
            for t in tasks:
                n = per_label.get(t[2], 0)
                if n < 3 and len(kept) < 24:
                    kept.append(t); per_label[t[2]] = n + 1
                else:
                    skipped.append(t)
            tasks = kept + probes
            for (j, pn, label) in skipped:
                j.result.setdefault('not_replayed', []).append(label)
            if skipped:
                notes.append('%d further failing (query, assertion) pairs were not replayed (cap of 3 per assertion label / 24 per run); their labels: %s' % (len(skipped), sorted(set(t[2] for t in skipped))))
            import threading
            self.nlock = threading.Lock()
            self.nbuilt = {}

            def do_replay(t):
                j, pn, label = t
                if label == HANG_LABEL:
                    # cbmc cannot be asked for the trace of an unwinding assertion; the control flow of a scenario does not depend on its symbolic inputs
                    # (they are only quantified over by the oracles), so the all-zero input - inside every harness's assumed ranges - reaches the same loop
                    vals, err = [0] * 256, None
                else:
                    vals, err = self.get_inputs(j, j.result['cfile'], pn)
                if vals is None:
                    return t, None, False, err
                fn = self.write_replay(j, label, vals)
                try:
                    key = (j.harness, j.entry, j.defs, j.units)
                    with self.nlock:
                        exe = self.nbuilt.get(key)
                        if exe is None:
                            exe = self.native_build(j)
                            self.nbuilt[key] = exe
                    rc, out = self.native_run(exe, fn, timeout=60 if label == HANG_LABEL else 20)
                    ok, why = self.replay_verdict(rc, out, label)
                    if label == HANG_LABEL and ok and rc == 1:
                        ok, why = False, 'hang probe: native run fails a harness assertion, not a hang (' + why + ')'
                except P.BuildError as e:
                    ok, why = False, 'native build failed: %s' % str(e)[-300:]
                return t, fn, ok, why

            with ThreadPoolExecutor(NCPU) as ex:
                results = list(ex.map(do_replay, tasks))
            for (j, pn, label), fn, ok, why in results:
                res = j.result
                if label == HANG_LABEL and not (fn is not None and ok):
                    res.setdefault('probe', []).append(why)   # bound too small, nothing more: stays inconclusive
                    notes.append('hang probe of %s: %s' % (j.name, why))
                elif fn is None:
                    res.setdefault('unconfirmed', []).append((label, why))
                elif ok:
                    if j.kfonly:
                        known_lines.append('KNOWN-FINDING: property=%s %s [%s: %s; %s]' % (self.pid, self.open_kf[j.kfonly]['what'], j.name, label, why))
                        res.setdefault('known', []).append((label, fn, why))
                    else:
                        if label == HANG_LABEL: res['verdict'] = 'fail'
                        violations.append((j, label, fn, why))
                        res.setdefault('confirmed', []).append((label, fn, why))
                else:
                    res.setdefault('unconfirmed', []).append((label, why + ' [replay file %s]' % fn))
        for j in getattr(self, 'jobs', []):
            for (label, why) in (j.result or {}).get('unconfirmed', []):
                self.say('UNCONFIRMED counterexample (not reported as violation; encoding or stub discrepancy to investigate): job=%s failing="%s": %s' % (j.name, label, why))
        seen_kf = set()
        dedup = []
        for l in known_lines:
            key = l.split(' [')[0]
            if key in seen_kf: continue
            seen_kf.add(key); dedup.append(l)
        known_lines[:] = dedup
        for l in known_lines:
            self.say(l)
        for n in notes:
            self.say('NOTE: ' + n)
        for (j, label, fn, why) in violations:
            self.say('VIOLATION property=%s replay=%s' % (self.pid, fn))
            self.say('  job=%s failing="%s": %s' % (j.name, label, why))
        self.write_evidence(build_failed, violations, known_lines, notes)
        jl = getattr(self, 'jobs', [])
        nq = sum(len(j.members) if j.members else 1 for j in jl)
        self.say('[%s/%s] done in %.0fs: %d queries, %d violation(s), %d known finding(s) reported' % (self.pid, self.tier, time.time() - self.t0, nq, len(violations), len(known_lines)))
        if not self.keep:
            shutil.rmtree(self.bdir, ignore_errors=True)
        if build_failed:
            return 2
        return 1 if violations else 0

    def write_evidence(self, build_failed, violations, known_lines, notes):
        jobs = getattr(self, 'jobs', [])
        passed = [j for j in jobs if j.result and j.result['verdict'] == 'pass']
        failed = [j for j in jobs if j.result and j.result['verdict'] == 'fail']
        inconc = [j for j in jobs if j.result and j.result['verdict'] == 'inconclusive']
        unconf = [j for j in jobs if j.result and j.result.get('unconfirmed')]
        raw = [j.result['raw'] for j in jobs if j.result]
        nprops = sum(r.get('n_props', 0) for r in raw)
        queries = []
        for j in jobs:
            if not j.result:
                continue
            r = j.result['raw']
            q = {'query': j.name, 'harness': j.harness, 'entry': j.entry, 'params': list(j.defs) + ['P%d=%d' % kv for kv in enumerate(j.params)], 'unwind': j.unwind,
                 'word_bits': j.narrow or 64, 'verdict': j.result['verdict'],
                 'cbmc_properties': r.get('n_props'), 'vccs': r.get('vccs'), 'sat_vars': r.get('sat_vars'), 'sat_clauses': r.get('sat_clauses'),
                 'solver_s': r.get('solver_s'), 'wall_s': r.get('wall'), 'rss_mb': r.get('rss_kb', 0) // 1024, 'what': j.desc, 'bounds': j.bounds}
            if j.result['verdict'] != 'pass':
                q['detail'] = [l if isinstance(l, str) else l[1] for l in j.result['labels']][:6]
            if j.result.get('unconfirmed'):
                q['counterexample_not_reproduced_natively'] = [list(x) for x in j.result['unconfirmed']]
            if j.result.get('known'):
                q['known_finding'] = j.kfonly
            if j.result.get('not_replayed'):
                q['failing_not_replayed'] = j.result['not_replayed']
            queries.append(q)
        info = self.spec.INFO
        expl = ('Bounded symbolic execution of the real code: %s. Pipeline: clang++-14 (unoptimised IR) -> llvm-link -> opt (inline/sroa/instcombine/'
                'simplifycfg, no loop passes) -> ll2c (own LLVM-IR-to-C translator) -> cbmc 6.11 --unwind N --unwinding-assertions; every query is '
                'decided by the SAT back end for ALL values of its symbolic inputs inside the stated bounds, nothing is sampled. Encoded repo units: %s. '
                'This run: %d queries (%d held within bound, %d failed, %d inconclusive), %d cbmc properties checked, solver time %.1fs, peak RSS %d MB. '
                'Every query carries a witness assertion that must FAIL (non-vacuity) and unwinding assertions (a too-small bound is reported as inconclusive, never as success). '
                'Outside the claim: %s') % (
            info['what'], ', '.join(info['units']), len(jobs), len(passed), len(failed), len(inconc), nprops,
            sum(r.get('solver_s', 0) or 0 for r in raw), max([r.get('rss_kb', 0) for r in raw] + [0]) // 1024, info['outside'])
        if build_failed:
            expl = 'BUILD FAILED: the encoding could not be regenerated from /repo. ' + expl
        ev = {
            'property_id': self.pid, 'tier': self.tier, 'seed': int(os.environ.get('VERIF_SEED', '0') or 0), 'level': 'other',
            'coverage': {
                'explanation': expl,
                'technique': 'bounded symbolic execution of clang LLVM IR (translated to C by ll2c) decided by cbmc/SAT',
                'functions_encoded': info.get('functions', []),
                'repo_units': info['units'],
                'obligations': len(jobs), 'discharged': len(passed),
                'cbmc_properties_checked': nprops,
                'queries': queries,
                'samples': queries[:3] if queries else [{'note': 'no query ran'}],
                'inconclusive': [j.name for j in inconc],
                'counterexamples_not_reproduced': [j.name for j in unconf],
                'known_findings_reported': known_lines,
                'notes': notes,
                'trusted_base': ['clang++-14 front end', 'opt-14 passes in lib/pipeline.py OPT_PIPELINE', 'll2c/ll2c.py translator', 'll2c/rt/ll2c_rt.h library models',
                                 'harness/shadow/ext/aligned_buffer.h (typed container storage)', 'cbmc 6.11 + SAT back end', 'harness oracles in harness/%s*.cpp' % self.pid],
                'solver_time_s': round(sum(r.get('solver_s', 0) or 0 for r in raw), 2),
                'exhaustive': False,
            },
            'assumptions': info['assumptions'],
            'wall_s': round(time.time() - self.t0, 1),
            'violations': len(violations),
        }
        # a partial run (--only) or a run against a deliberately modified tree (tools/run_seeded.sh) must not replace the evidence of a full run
        edir = os.environ.get('VERIF_EVIDENCE_DIR') or (os.path.join(VERIF, 'build', 'evidence_partial') if self.only else os.path.join(VERIF, 'evidence'))
        os.makedirs(edir, exist_ok=True)
        with open(os.path.join(edir, self.pid + '.json'), 'w') as f:
            json.dump(ev, f, indent=1)


def replay_file(path):
    """re-run a stored counterexample natively against /repo's current tree"""
    meta = {}
    for line in open(path):
        if line.startswith('# '):
            for kv in re.findall(r'(\w+)=(.*?)(?= \w+=|$)', line[2:].strip()):
                meta[kv[0]] = kv[1]
    pid = meta['property']
    job = Job(meta['job'], meta['harness'], meta['entry'], meta['units'].split(), 0, defs=[d for d in meta.get('defs', '').split() if d])
    c = Check(pid, 'quick', keep=False)
    os.makedirs(c.bdir, exist_ok=True)
    exe = c.native_build(job)
    rc, out = c.native_run(exe, path)
    ok, why = c.replay_verdict(rc, out, meta.get('failing', ''))
    print(out.strip())
    print('replay: %s -> %s' % ('REPRODUCED' if ok else 'not reproduced', why))
    shutil.rmtree(c.bdir, ignore_errors=True)
    if ok:
        print('VIOLATION property=%s replay=%s' % (pid, path))
    return 1 if ok else 0
