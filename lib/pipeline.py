"""Pipeline: /repo C++ sources + harness -> LLVM IR -> reduced IR -> C (ll2c) -> cbmc verdicts.

Everything is regenerated from /repo's current working tree on every run; nothing is cached across runs
except inside one build directory that the driver wipes first.
"""
import os, re, subprocess, sys, time, json, hashlib, shutil, resource

VERIF = os.path.dirname(os.path.dirname(os.path.abspath(__file__)))
REPO = os.environ.get('VERIF_REPO', '/repo')
LL2C = os.path.join(VERIF, 'll2c', 'll2c.py')
RT = os.path.join(VERIF, 'll2c', 'rt')
HINC = os.path.join(VERIF, 'harness', 'include')

INCLUDES = ['smt', 'smt/arith', 'smt/arith/lra', 'smt/arith/dl', 'smt/ov', 'smt/json', 'riddle', 'core', 'solver']

# clang emits unoptimised IR (-O1 so that functions are not marked optnone, but no LLVM passes run); the optimisation
# pipeline is ours (OPT_PIPELINE) and deliberately contains no loop pass: indvars / loop-idiom rewrite pointer
# loops into integer arithmetic on ptrtoint values (SCEV expansions such as  -8 - (i64)first + (i64)last ), which
# cbmc cannot constant-fold, turning every std::vector size into a symbolic value.
CLANG_FLAGS = ['-std=c++17', '-O1', '-Xclang', '-disable-llvm-passes', '-fno-access-control',
               '-fno-discard-value-names', '-S', '-emit-llvm', '-DPSTLAB_ORATIO_VERIF']
OPT_PIPELINE = ('internalize,globaldce,inferattrs,function(sroa,early-cse,simplifycfg,instcombine),'
                'cgscc(devirt<4>(inline,function-attrs,function(sroa,early-cse,simplifycfg,instcombine))),'
                'globaldce,function(sroa,early-cse,instcombine,simplifycfg,adce)')


def inc_flags():
    fl = ['-I', os.path.join(VERIF, 'harness', 'shadow'), '-I', HINC]
    for d in INCLUDES:
        fl += ['-I', os.path.join(REPO, d)]
    return fl


def run(cmd, timeout=None, **kw):
    return subprocess.run(cmd, stdout=subprocess.PIPE, stderr=subprocess.STDOUT, timeout=timeout, text=True, **kw)


class BuildError(Exception):
    pass


def emit_ir(src, out, defs=(), extra=()):
    cmd = ['clang++-14'] + CLANG_FLAGS + inc_flags() + ['-D' + d for d in defs] + list(extra) + [src, '-o', out]
    r = run(cmd)
    if r.returncode != 0:
        raise BuildError('clang failed on %s:\n%s' % (src, r.stdout[-4000:]))
    return out


def link_reduce(lls, entries, out):
    linked = out + '.linked.ll'
    r = run(['llvm-link-14', '-S'] + list(lls) + ['-o', linked])
    if r.returncode != 0:
        raise BuildError('llvm-link failed:\n' + r.stdout[-4000:])
    r = run(['opt-14', '-S', '-passes=' + OPT_PIPELINE, '-internalize-public-api-list=' + ','.join(entries), linked, '-o', out])
    if r.returncode != 0:
        raise BuildError('opt failed:\n' + r.stdout[-4000:])
    os.unlink(linked)
    return out


def translate(ll, cfile, narrow=0, extra=(), entries=()):
    cmd = [sys.executable, LL2C, ll, '-o', cfile] + (['--narrow', str(narrow)] if narrow else []) + (['--entries', ','.join(entries)] if entries else []) + list(extra)
    r = run(cmd)
    if r.returncode != 0:
        raise BuildError('ll2c failed on %s:\n%s' % (ll, r.stdout[-4000:]))
    return cfile


CBMC_BASE = ['--unwinding-assertions', '--drop-unused-functions', '--no-standard-checks', '--object-bits', '12']


def _limit(mem_gb):
    def f():
        if mem_gb:
            b = int(mem_gb * (1 << 30))
            resource.setrlimit(resource.RLIMIT_AS, (b, b))
        os.setsid()
    return f


def cbmc(cfile, fn, unwind, flags=(), timeout=300, mem_gb=12, defs=(), unwindset=(), trace=False):
    """run cbmc; returns dict(status, failed=[labels], wall, rss_kb, out)
    status: 'success' | 'failed' | 'unwind' (only unwinding assertions failed) | 'timeout' | 'error'"""
    cmd = ['cbmc', cfile, '-I', RT, '--function', fn, '--unwind', str(unwind)] + CBMC_BASE + list(flags)
    for d in defs:
        cmd += ['-D', d]
    if unwindset:
        cmd += ['--unwindset', ','.join(unwindset)]
    if trace:
        cmd += ['--trace']
    env = dict(os.environ)
    env['PATH'] = os.path.join(VERIF, 'shim') + ':' + env.get('PATH', '')
    t0 = time.time()
    p = subprocess.Popen(['/usr/bin/time', '-f', 'RSSKB=%M'] + cmd, stdout=subprocess.PIPE, stderr=subprocess.STDOUT, text=True, env=env, preexec_fn=_limit(mem_gb))
    try:
        out, _ = p.communicate(timeout=timeout)
        to = False
    except subprocess.TimeoutExpired:
        try:
            os.killpg(p.pid, 9)
        except ProcessLookupError:
            pass
        out, _ = p.communicate()
        to = True
    wall = time.time() - t0
    rss = 0
    m = re.search(r'RSSKB=(\d+)', out or '')
    if m:
        rss = int(m.group(1))
    res = {'wall': round(wall, 2), 'rss_kb': rss, 'out': out, 'cmd': ' '.join(cmd)}
    if to:
        res['status'] = 'timeout'; res['failed'] = []
        return res
    failed = re.findall(r'^\[([^\]]+)\] (?:line \d+ )?(.*): FAILURE$', out, re.M)
    res['failed'] = failed
    m = re.search(r'(\d+) of (\d+) failed', out)
    if m:
        res['n_props'] = int(m.group(2))
    m = re.search(r'Generated (\d+) VCC\(s\), (\d+) remaining', out)
    if m:
        res['vccs'] = int(m.group(1)); res['vccs_remaining'] = int(m.group(2))
    m = re.search(r'(\d+) variables, (\d+) clauses', out)
    if m:
        res['sat_vars'] = int(m.group(1)); res['sat_clauses'] = int(m.group(2))
    sol = re.findall(r'Runtime Solver: ([0-9.e+-]+)s', out)
    res['solver_s'] = round(sum(float(x) for x in sol), 3)
    m = re.search(r'Runtime Symex: ([0-9.e+-]+)s', out)
    if m:
        res['symex_s'] = float(m.group(1))
    if 'VERIFICATION SUCCESSFUL' in out:
        res['status'] = 'success'
    elif 'VERIFICATION FAILED' in out:
        real = [f for f in failed if 'unwinding assertion' not in f[1] and 'recursion unwinding' not in f[1]]
        res['status'] = 'failed' if real else 'unwind'
    else:
        res['status'] = 'error'
    return res
