#!/bin/bash
# usage: tools/run_seeded_wt.sh <worktree-with-the-seeded-change-applied> <PROPERTY-ID> [tier] [extra check args]
# like run_seeded.sh but leaves /repo alone: the check is pointed at a scratch worktree (VERIF_REPO) and uses its own build / replay / evidence dirs,
# so it can run while other checks work on /repo.  Only for experiments with seeded changes; registered commands always use /repo.
w=$1; p=$2; t=${3:-quick}; shift 3
cd /verif
tag=-$(basename $w)
VERIF_REPO=$w VERIF_BUILD_TAG=$tag VERIF_EVIDENCE_DIR=/verif/build/evidence_seeded ./check $p --tier $t "$@" > /tmp/seedrun_$(basename $w)_$p.log 2>&1; rc=$?
echo "$(basename $w) vs $p/$t: exit=$rc  $(grep -c '^VIOLATION' /tmp/seedrun_$(basename $w)_$p.log) violation lines, $(grep -c 'UNCONFIRMED' /tmp/seedrun_$(basename $w)_$p.log) unconfirmed"
exit $rc
