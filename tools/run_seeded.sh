#!/bin/bash
# usage: tools/run_seeded.sh <seed-dir> <PROPERTY-ID> [tier] [extra check args]: applies the seeded change to /repo, runs the check, reverts
d=$1; p=$2; t=${3:-quick}; shift 3
cd /verif
git -C /repo diff --quiet || { echo "/repo has uncommitted changes"; exit 2; }
git -C /repo apply $PWD/$d/patch.diff || exit 2
VERIF_EVIDENCE_DIR=/verif/build/evidence_seeded ./check $p --tier $t "$@" > /tmp/seedrun_$(basename $d)_$p.log 2>&1; rc=$?
git -C /repo checkout -- .
echo "$(basename $d) vs $p/$t: exit=$rc  $(grep -c '^VIOLATION' /tmp/seedrun_$(basename $d)_$p.log) violation lines, $(grep -c 'UNCONFIRMED' /tmp/seedrun_$(basename $d)_$p.log) unconfirmed"
exit $rc
