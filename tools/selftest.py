#!/usr/bin/env python3
"""MANIFEST.setup_cmd: nothing needs building (the framework is python + headers); verify the tool chain is present and
that the IR->C translator and its library models agree with the real library on the repo's own unit tests."""
import shutil, subprocess, sys, os
need = ['clang++-14', 'opt-14', 'llvm-link-14', 'cbmc', 'g++', 'gcc']
missing = [t for t in need if shutil.which(t) is None]
if missing:
    print('missing tools:', missing); sys.exit(1)
here = os.path.dirname(os.path.abspath(__file__))
os.makedirs(os.path.join(os.path.dirname(here), 'build'), exist_ok=True)
os.makedirs(os.path.join(os.path.dirname(here), 'evidence'), exist_ok=True)
r = subprocess.run([sys.executable, os.path.join(here, 'validate_translator.py')], stdout=subprocess.PIPE, stderr=subprocess.DEVNULL, text=True)
print(r.stdout)
sys.exit(r.returncode)
