#!/usr/bin/env python3
"""regenerates /verif/MANIFEST.json from the table below (claimed checks must have specs/<ID>.py)"""
import json, os

V = os.path.dirname(os.path.dirname(os.path.abspath(__file__)))
TECH = 'bounded symbolic execution of the real code (clang LLVM IR -> ll2c -> cbmc/SAT), counterexamples replayed natively'
NOTE = ('trusted base: clang++-14 front end, the opt-14 passes named in lib/pipeline.py, the ll2c translator and its library models (ll2c/rt), '
        'cbmc 6.11 + SAT back end, the harness oracles; allocation failure, use-after-free, leaks and everything outside the stated bounds are not covered')

CLAIMED = {
    'C08': ('The pop / backjump scenarios of the C07, C09, C10 and C14 checks: after every undo the SAT values are again exactly the consequences of clauses and remaining decisions (entailment + propagation fixpoint over ALL assignments), the difference-logic matrix equals the Floyd-Warshall reference of the remaining constraints, LRA bounds equal their snapshot from before the undone decision, object-variable domains equal their snapshot. Includes decisions that update the same bound / distance twice within one level (through root clauses).', '5 C08'),
    'C09': ('lra_theory is driven through sat_core on concrete relation sets and histories (assume / pop / root assertion / check / root clauses / late requests): values are checked concretely against every asserted constraint (strictness through the infinitesimal part), every tableau row and the bounds; cbmc decides over ALL grid points (X,Y) in [-6,6]^2 and ALL SAT assignments that bounds contain every solution, every explanation / learnt clause is valid, inconsistency means infeasibility on the grid. Completeness is relative to the grid.', '5 C09/C11'),
    'C11': ('Every relation literal of lra_theory (fresh, shared through the caches, constant because root bounds decide it, over basic variables, with cancelling variables, requested before or after bounds were tightened) is decided, over ALL grid points and ALL SAT assignments that model the clause database and give every assertion literal its meaning, to be true exactly when its relation holds; a request changes no earlier bound.', '5 C09/C11'),
    'C18': ('Partial: the API half only. Every query of the C07, C09, C10, C13, C14 and C15-lin checks is re-read for assert() failures (live in the encoding), exceptions escaping noexcept (std::terminate), pure-virtual calls, traps, signed overflow and division by zero; a query whose unwinding assertion fails is replayed natively and a native hang / abort is reported as non-termination. The text-input half (lexer / parser on arbitrary bytes, hangs) could not be encoded (measured, DESIGN.md section 3) and is NOT covered.', '5 C18'),
    'C07': ('The real sat_core (clause database, two-watched-literal propagation, conflict analysis, backjumping, next, check, simplify_db) is executed on concrete clause sets and call histories (curated conflict scenarios plus a seeded sample; systematic families in the thorough tier); after every call cbmc decides over ALL total assignments that every reported value is entailed by the added clauses and standing decisions, every stored or learnt clause is implied, an inconsistency answer means unsatisfiability, and propagation reached its fixpoint. The histories are enumerated, not symbolic (symbolic shapes make cbmc lose constant heap pointers); the quantification over models is symbolic.', '5 C07'),
    'C10': ('idl_theory and rdl_theory are driven through sat_core on concrete constraint sets and assume / pop / root-assert / check histories; after every call cbmc decides for ALL time-point assignments that the reported matrix equals a Floyd-Warshall reference, bounds contain every solution, everything decided is propagated, every explanation / learnt clause is valid under the meaning of its literals, and inconsistency means unsatisfiability. Scenarios are enumerated (curated + seeded sample); the assignment x is symbolic.', '5 C10'),
    'C12': ('The five relation constructors and the bounds / distance / equates queries of idl_theory and rdl_theory are called on concrete expression shapes (coefficients 0,+-1,+-2; integer and half-integer constants; both variable orders; with and without root constraints); cbmc decides for ALL time-point values and ALL SAT assignments compatible with the meaning of the distance literals that the returned literal has the value of the relation, and that query results contain / equal the exact ranges. Three defects found this way were repaired (fix: commits); their reproducers are ordinary queries of both tiers.', '5 C12'),
    'C14': ('ov_theory is exercised for every pair of non-empty domains over a 3-value pool: cbmc decides over ALL SAT assignments that each variable has exactly one allowed value in every model, that the equality literal is true exactly for equal values, that every pair of allowed values extends to a model, and that reported domains follow the value literals through assume / pop.', '5 C14'),
    'C15': ('All operators of rational, inf_rational and lin are executed on fully symbolic operands (|num|, den <= B; integer coefficients for lin) and compared by the solver with exact cross-multiplication, canonicity (reduced, positive denominator) and the total order incl. infinities; 64-bit machine words, signed-overflow and division-by-zero checks on. Shapes that change the structure of a lin map (which variables cancel, zero scalar) are enumerated by the driver. Bounded by B, not a proof for all magnitudes.', '5 C15'),
    'C13': ('Every reified construct (eq/conj/disj/at-most-one/exactly-one) of the real sat_core is built for every argument shape inside the bound (operator, argument variables incl. '
            'the constant, signs, duplicates, complements, root pre-assignments, second construction through the cache); for each shape cbmc decides for ALL total assignments that the '
            'returned literal has the value of the formula in every model of the clause database and that no assignment of the original variables is excluded (auxiliary variables enumerated); pairs of constructs sharing an argument and pairs of DIFFERENT kinds over the same arguments are checked the same way, the product encoding for 4-7 arguments. Bounded (<=2 arguments quick, '
            '<=3 thorough), not a proof for arbitrary length.', '5 C13'),
}

NOT_APPLICABLE = {
    'C01': 'needs read()+solve() of whole RIDDLE programs: parser -> core (dynamic_cast, typed catch as control flow) -> planner loop; measured cost of the encodable layer is seconds per sat_core call with everything concrete and the translator does not support typed catch/RTTI, so the code the property depends on cannot be encoded within reach. Its theory-level obligations are discharged under C07, C09-C15.',
    'C02': 'same pipeline as C01; the verdict depends on graph building, heuristics and an unbounded search. The "only implied clauses are learnt / conflicts are real" half is checked under C07, C09, C10.',
    'C03': 'atom/flaw/resolver object graph, unification through atom::new_eq over field maps and causal IDL ordering live in solver/ on top of core (RTTI, typed catch); not encodable.',
    'C04': 'state_variable::get_current_incs is a method over live atoms, expr maps and listeners inside a running solver; it cannot be separated from the planner without writing a model of it.',
    'C05': 'same as C04 for reusable_resource (plus MCS extraction over arith_value of live atoms).',
    'C06': 'holds by construction of INIT_STRING + predicate::apply_rule inside the planner; there is no encodable kernel below the planner.',
    'C16': 'lexer measured: lexer::next() builds std::strings whose length depends on the input bytes; with ONE input byte symbolic over two values cbmc gave no verdict in 100 s, with one fully symbolic byte none in 15 min (concrete input: 2 s); the parser is a virtual-dispatch AST factory with exceptions as control flow, and evaluation goes through core (RTTI, typed catch). The exact-evaluation part of the property (constant expressions, where 3.0*4.0 went wrong) is covered by C15 on lin / rational; tokens, precedence and acceptance are not covered by any check.',
    'C17': 'class hierarchies, constructors, field access and enum unions are the core layer (RTTI, string-keyed scopes, exceptions as control flow); the object-variable encoding underneath is C14.',
    'C19': 'the executor sits on top of a solved planner and its listeners; it is not built by the pinned configuration and is not encodable for the same reasons as C01.',
    'C20': 'needs std::thread / condition_variable / std::function semantics and preemptive interleavings; the translator is sequential and cbmc only models threads of C programs it parses itself. A task-order stub would replace exactly the synchronisation under test.',
}

PENDING = 'check not built yet in this session (planned, see DESIGN.md section 5)'


def main():
    ids = ['C%02d' % i for i in range(1, 21)]
    checks = []
    na = []
    for i in ids:
        if i in CLAIMED and os.path.exists(os.path.join(V, 'specs', i + '.py')):
            text, ref = CLAIMED[i]
            checks.append({
                'property_id': i,
                'quick_cmd': './check %s --tier quick' % i,
                'thorough_cmd': './check %s --tier thorough' % i,
                'evidence_file': 'evidence/%s.json' % i,
                'replay_cmd_template': './check --replay {path}',
                'engine': 'll2c+cbmc',
                'level_claimed': {'category': 'other', 'text': text, 'design_ref': 'DESIGN.md section ' + ref},
                'level_note': NOTE,
                'technique': TECH,
            })
        else:
            na.append({'property_id': i, 'reason': NOT_APPLICABLE.get(i, PENDING)})
    m = {
        'version': 1,
        'setup_cmd': 'python3 tools/selftest.py',
        'hooks': {'guard': 'PSTLAB_ORATIO_VERIF',
                  'enable': 'no source hooks exist: harnesses are compiled with -fno-access-control and read private state directly (-DPSTLAB_ORATIO_VERIF is passed but nothing in /repo tests it)',
                  'baseline_off_cmd': 'cmake --build /repo/_build -j16 && ctest --test-dir /repo/_build -j8 --timeout 900',
                  'source_commits': [], 'add_only': True},
        'engines': [{'name': 'll2c+cbmc', 'path': '/verif/check', 'serves_properties': [c['property_id'] for c in checks],
                     'kind_free_text': 'clang++-14 IR of /repo sources + C++ harness -> opt-14 -> own LLVM-IR-to-C translator (ll2c/ll2c.py) -> cbmc 6.11 bounded model checking with unwinding assertions; counterexamples replayed against a native g++ build'}],
        'checks': checks,
        'not_applicable': na,
        'notes': 'approach, bounds, trusted base, findings and seeded-change results are in DESIGN.md; known_findings.json lists recorded and fixed defects',
    }
    json.dump(m, open(os.path.join(V, 'MANIFEST.json'), 'w'), indent=1)
    print('claimed:', [c['property_id'] for c in checks])


if __name__ == '__main__':
    main()
