#!/usr/bin/env python3
"""Translator / runtime-model validation: the repo's own unit-test programs (smt/tests, riddle/tests) are pushed through
exactly the pipeline the checks use (clang IR -> opt -> ll2c -> C), the generated C is compiled with gcc and executed,
and the outcome is compared with a g++ build of the same test against the real libstdc++.  Every assert() of those tests
is live in both builds.  A disagreement means ll2c or a model in ll2c/rt misrepresents the code.
Prints one line per program; exit 0 iff all agree."""
import os, sys, subprocess, shutil, tempfile
from concurrent.futures import ThreadPoolExecutor
sys.path.insert(0, os.path.join(os.path.dirname(os.path.dirname(os.path.abspath(__file__))), 'lib'))
import pipeline as P

SAT = ['smt/sat_core.cpp', 'smt/clause.cpp', 'smt/constr.cpp', 'smt/theory.cpp', 'smt/json/json.cpp', 'smt/sat_stack.cpp']
ARITH = ['smt/arith/rational.cpp', 'smt/arith/lin.cpp']
PROGRAMS = [
    ('smt/tests/test_sat.cpp', SAT),
    ('smt/tests/test_lra.cpp', SAT + ARITH + ['smt/arith/lra/lra_theory.cpp', 'smt/arith/lra/lra_constraint.cpp']),
    ('smt/tests/test_dl.cpp', SAT + ARITH + ['smt/arith/dl/idl_theory.cpp', 'smt/arith/dl/rdl_theory.cpp']),
    ('smt/tests/test_ov.cpp', SAT + ['smt/ov/ov_theory.cpp']),
]


def sh(cmd, **kw):
    return subprocess.run(cmd, stdout=subprocess.PIPE, stderr=subprocess.STDOUT, text=True, **kw)


def one(args):
    test, units, wd = args
    name = os.path.basename(test)[:-4]
    d = os.path.join(wd, name)
    os.makedirs(d)
    try:
        lls = [P.emit_ir(os.path.join(P.REPO, u), os.path.join(d, u.replace('/', '_') + '.ll')) for u in units + [test]]
        red = os.path.join(d, 'red.ll')
        P.link_reduce(lls, ['main'], red)
        c = os.path.join(d, 'red.c')
        P.translate(red, c, entries=['main'])
        r = sh(['gcc', '-O1', '-w', '-I', P.RT, c, '-o', os.path.join(d, 'viaC'), '-lm'])
        if r.returncode != 0:
            return name, False, 'gcc failed on generated C: ' + r.stdout[-400:]
        inc = ['-I', P.HINC] + sum([['-I', os.path.join(P.REPO, x)] for x in P.INCLUDES], [])
        r = sh(['g++', '-std=c++17', '-O0', '-w'] + inc + [os.path.join(P.REPO, u) for u in units + [test]] + ['-o', os.path.join(d, 'native')])
        if r.returncode != 0:
            return name, False, 'g++ failed: ' + r.stdout[-400:]
        a = sh([os.path.join(d, 'viaC')], timeout=120)
        b = sh([os.path.join(d, 'native')], timeout=120)
        ok = a.returncode == b.returncode
        return name, ok, 'translated exit=%s native exit=%s %s' % (a.returncode, b.returncode, (a.stdout or '')[-200:].replace('\n', ' | '))
    except Exception as e:
        return name, False, 'pipeline error: %s' % str(e)[-500:]


def main():
    wd = tempfile.mkdtemp(prefix='ll2c-validate-', dir=os.path.join(P.VERIF, 'build') if os.path.isdir(os.path.join(P.VERIF, 'build')) else None)
    try:
        with ThreadPoolExecutor(4) as ex:
            res = list(ex.map(one, [(t, u, wd) for t, u in PROGRAMS]))
    finally:
        shutil.rmtree(wd, ignore_errors=True)
    allok = True
    for name, ok, msg in res:
        print('%-10s %s  %s' % (name, 'AGREE' if ok else 'DISAGREE', msg))
        allok = allok and ok
    return 0 if allok else 1


if __name__ == '__main__':
    sys.exit(main())
