#!/usr/bin/env python3
"""debug aid: insert reachability probes after every call / at every label of one C function and report which ones cbmc can reach
usage: probe.py file.c entry function-to-probe [cbmc args...]"""
import sys, re, subprocess
f, entry, fn = sys.argv[1], sys.argv[2], sys.argv[3]
lines = open(f).read().split('\n')
out = []; inside = False; n = 0; info = {}
for i, l in enumerate(lines):
    out.append(l)
    if re.match(r'^\w.*\b%s\(.*\)$' % re.escape(fn), l): inside = True; continue
    if inside and l == '}': inside = False
    if inside and (re.match(r'^B_\w+: ;$', l)):
        n += 1; info[n] = (i + 1, l[:80]); out.append('  __CPROVER_assert(0, "PROBE %d");' % n)
open(f + '.probe.c', 'w').write('\n'.join(out))
r = subprocess.run(['timeout', '300', 'cbmc', f + '.probe.c', '--function', entry] + sys.argv[4:], stdout=subprocess.PIPE, stderr=subprocess.STDOUT, text=True)
reach = set(int(x) for x in re.findall(r'PROBE (\d+): FAILURE', r.stdout))
print(r.stdout[-300:])
last = 0
for k in sorted(info):
    print('%s %4d line %d %s' % ('R' if k in reach else '-', k, info[k][0], info[k][1]))
