#include "lin.h"
#include <cstdio>
using namespace smt;
int main(){ lin l; l.vars.emplace(1, rational(2)); l.vars.emplace(2, rational(3)); l.vars.emplace(3, rational(-1)); l.known_term = rational(5);
 l -= l; printf("vars=%zu kt=%s\n", l.vars.size(), to_string(l.known_term).c_str()); return l.vars.empty() && l.known_term == rational::ZERO ? 0 : 1; }
