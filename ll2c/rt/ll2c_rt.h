/* ll2c runtime models, included at the end of every generated translation unit (prototype). */
i64 __ll2c_last_in = 0; u64 __ll2c_in_count = 0;
int __ll2c_exc_active = 0; void *__ll2c_exc_ptr = 0; void *__ll2c_exc_type = 0; int __ll2c_exc_sel = 0;
static u64 __ll2c_cttz64(u64 x) { u64 n = 0; if (x == 0) return 64; if (!(x & 0xFFFFFFFFUL)) { n += 32; x >>= 32; } if (!(x & 0xFFFF)) { n += 16; x >>= 16; } if (!(x & 0xFF)) { n += 8; x >>= 8; } if (!(x & 0xF)) { n += 4; x >>= 4; } if (!(x & 3)) { n += 2; x >>= 2; } if (!(x & 1)) n += 1; return n; }
static u32 __ll2c_cttz32(u32 x) { return x == 0 ? 32 : (u32)__ll2c_cttz64(x); }
static u16 __ll2c_cttz16(u16 x) { return x == 0 ? 16 : (u16)__ll2c_cttz64(x); }
static u8 __ll2c_cttz8(u8 x) { return x == 0 ? 8 : (u8)__ll2c_cttz64(x); }
static u64 __ll2c_ctlz64(u64 x) { u64 n = 0; if (x == 0) return 64; if (!(x >> 32)) { n += 32; x <<= 32; } if (!(x >> 48)) { n += 16; x <<= 16; } if (!(x >> 56)) { n += 8; x <<= 8; } if (!(x >> 60)) { n += 4; x <<= 4; } if (!(x >> 62)) { n += 2; x <<= 2; } if (!(x >> 63)) n += 1; return n; }
static u32 __ll2c_ctlz32(u32 x) { return x == 0 ? 32 : (u32)(__ll2c_ctlz64(x) - 32); }
static void __ll2c_umul_ov64(u64 a, u64 b, u64 *r, _Bool *o) { u128 p = (u128)a * b; *r = (u64)p; *o = (p >> 64) != 0; }
static void __ll2c_uadd_ov64(u64 a, u64 b, u64 *r, _Bool *o) { *r = a + b; *o = *r < a; }
#ifdef NEED__Znwm
u8 *F__Znwm(u64 n) { u8 *p = LL2C_MALLOC(n); return p; }
#endif
#ifdef NEED__Znam
u8 *F__Znam(u64 n) { u8 *p = LL2C_MALLOC(n); return p; }
#endif
#ifdef NEED__ZdlPv
void F__ZdlPv(u8 *p) { LL2C_FREE(p); }
#endif
#ifdef NEED__ZdaPv
void F__ZdaPv(u8 *p) { LL2C_FREE(p); }
#endif
/* exact small-integer models of the libm functions the encoded units use (ceil(sqrt(n)), ceil(n / p) in the grid encoding of
   at-most-one); cbmc's own sqrt is a nondeterministic approximation, which turns loop bounds symbolic.  sqrt is exact for
   perfect squares and otherwise returns floor(sqrt(x)) + 0.5, which is all that ceil / floor / comparisons of it can observe. */
static double __ll2c_floor(double x) { long i = (long)x; return ((double)i > x) ? (double)(i - 1) : (double)i; }
static double __ll2c_ceil(double x) { long i = (long)x; return ((double)i < x) ? (double)(i + 1) : (double)i; }
static double __ll2c_sqrt(double x) { double r = 0; while ((r + 1) * (r + 1) <= x) r += 1; return r * r == x ? r : r + 0.5; }
int bcmp(const void *a, const void *b, unsigned long n) { return memcmp(a, b, n); }
void __cxa_pure_virtual(void) { __CPROVER_assert(0, "PURE-VIRTUAL-CALL"); __CPROVER_assume(0); }
#ifdef LL2C_STRING
/* libstdc++ SSO string: { char* p; size_t len; union { size_t cap; char buf[16]; } } */
#define STR_P(s) ((s)->f0.f0)
#define STR_LEN(s) ((s)->f1)
#define STR_CAP(s) (*(u64*)&(s)->f2)
#define STR_BUF(s) ((u8*)&(s)->f2)
static u64 __ll2c_str_cap(LL2C_STRING *s) { return STR_P(s) == STR_BUF(s) ? 15 : STR_CAP(s); }
#ifdef NEED__ZNSt7__cxx1112basic_stringIcSt11char_traitsIcESaIcEE9_M_createERmm
u8 *F__ZNSt7__cxx1112basic_stringIcSt11char_traitsIcESaIcEE9_M_createERmm(LL2C_STRING *s, u64 *cap, u64 old) { u8 *p = LL2C_MALLOC(*cap + 1); return p; }
#endif
#ifdef NEED__ZNSt7__cxx1112basic_stringIcSt11char_traitsIcESaIcEE12_M_constructEmc
void F__ZNSt7__cxx1112basic_stringIcSt11char_traitsIcESaIcEE12_M_constructEmc(LL2C_STRING *s, u64 n, u8 c) {
  if (n > 15) { u8 *p = LL2C_MALLOC(n + 1); STR_P(s) = p; STR_CAP(s) = n; }
  if (n) LL2C_BYTE_MEMSET(STR_P(s), c, n);
  STR_LEN(s) = n; STR_P(s)[n] = 0; }
#endif
static void __ll2c_str_reserve(LL2C_STRING *s, u64 need) {
  if (need > __ll2c_str_cap(s)) { u8 *p = LL2C_MALLOC(need + 1); if (STR_LEN(s)) LL2C_TYPED_MEMCPY(u8, p, STR_P(s), STR_LEN(s)); if (STR_P(s) != STR_BUF(s)) LL2C_FREE(STR_P(s)); STR_P(s) = p; STR_CAP(s) = need; } }
#ifdef NEED__ZNSt7__cxx1112basic_stringIcSt11char_traitsIcESaIcEE9_M_appendEPKcm
LL2C_STRING *F__ZNSt7__cxx1112basic_stringIcSt11char_traitsIcESaIcEE9_M_appendEPKcm(LL2C_STRING *s, u8 *t, u64 n) {
  u64 len = STR_LEN(s); __ll2c_str_reserve(s, len + n); if (n) LL2C_TYPED_MEMCPY(u8, STR_P(s) + len, t, n); STR_LEN(s) = len + n; STR_P(s)[len + n] = 0; return s; }
#endif
#ifdef NEED__ZNSt7__cxx1112basic_stringIcSt11char_traitsIcESaIcEE10_M_replaceEmmPKcm
LL2C_STRING *F__ZNSt7__cxx1112basic_stringIcSt11char_traitsIcESaIcEE10_M_replaceEmmPKcm(LL2C_STRING *s, u64 pos, u64 len1, u8 *t, u64 len2) {
  u64 len = STR_LEN(s); u64 nl = len - len1 + len2; u8 *tmp = LL2C_MALLOC(nl + 1);
  LL2C_TYPED_MEMCPY(u8, tmp, STR_P(s), pos); LL2C_TYPED_MEMCPY(u8, tmp + pos, t, len2); LL2C_TYPED_MEMCPY(u8, tmp + pos + len2, STR_P(s) + pos + len1, len - pos - len1);
  __ll2c_str_reserve(s, nl); LL2C_TYPED_MEMCPY(u8, STR_P(s), tmp, nl); STR_LEN(s) = nl; STR_P(s)[nl] = 0; LL2C_FREE(tmp); return s; }
#endif
#endif
#ifdef LL2C_RBNODE
/* red-black tree primitives modelled as an unbalanced BST: ordering, iteration and header bookkeeping are preserved; colours are ignored */
#define RB_PARENT(n) ((n)->f1)
#define RB_LEFT(n) ((n)->f2)
#define RB_RIGHT(n) ((n)->f3)
static LL2C_RBNODE *__ll2c_rb_inc(LL2C_RBNODE *x) {
  if (RB_RIGHT(x)) { x = RB_RIGHT(x); while (RB_LEFT(x)) x = RB_LEFT(x); return x; }
  LL2C_RBNODE *y = RB_PARENT(x); while (x == RB_RIGHT(y)) { x = y; y = RB_PARENT(y); } if (RB_RIGHT(x) != y) x = y; return x; }
static LL2C_RBNODE *__ll2c_rb_dec(LL2C_RBNODE *x) {
  if (RB_PARENT(RB_PARENT(x)) == x && x->f0 == 0 /* header is red */) return RB_RIGHT(x);
  if (RB_LEFT(x)) { LL2C_RBNODE *y = RB_LEFT(x); while (RB_RIGHT(y)) y = RB_RIGHT(y); return y; }
  LL2C_RBNODE *y = RB_PARENT(x); while (x == RB_LEFT(y)) { x = y; y = RB_PARENT(y); } return y; }
#ifdef NEED__ZSt18_Rb_tree_incrementPKSt18_Rb_tree_node_base
LL2C_RBNODE *F__ZSt18_Rb_tree_incrementPKSt18_Rb_tree_node_base(LL2C_RBNODE *x) { return __ll2c_rb_inc(x); }
#endif
#ifdef NEED__ZSt18_Rb_tree_incrementPSt18_Rb_tree_node_base
LL2C_RBNODE *F__ZSt18_Rb_tree_incrementPSt18_Rb_tree_node_base(LL2C_RBNODE *x) { return __ll2c_rb_inc(x); }
#endif
#ifdef NEED__ZSt18_Rb_tree_decrementPSt18_Rb_tree_node_base
LL2C_RBNODE *F__ZSt18_Rb_tree_decrementPSt18_Rb_tree_node_base(LL2C_RBNODE *x) { return __ll2c_rb_dec(x); }
#endif
#ifdef NEED__ZSt18_Rb_tree_decrementPKSt18_Rb_tree_node_base
LL2C_RBNODE *F__ZSt18_Rb_tree_decrementPKSt18_Rb_tree_node_base(LL2C_RBNODE *x) { return __ll2c_rb_dec(x); }
#endif
#ifdef NEED__ZSt29_Rb_tree_insert_and_rebalancebPSt18_Rb_tree_node_baseS0_RS_
void F__ZSt29_Rb_tree_insert_and_rebalancebPSt18_Rb_tree_node_baseS0_RS_(_Bool left, LL2C_RBNODE *x, LL2C_RBNODE *p, LL2C_RBNODE *h) {
  RB_PARENT(x) = p; RB_LEFT(x) = 0; RB_RIGHT(x) = 0; x->f0 = 1; /* black: only the header is red */
  if (left) { RB_LEFT(p) = x; if (p == h) { RB_PARENT(h) = x; RB_RIGHT(h) = x; } else if (p == RB_LEFT(h)) RB_LEFT(h) = x; }
  else { RB_RIGHT(p) = x; if (p == RB_RIGHT(h)) RB_RIGHT(h) = x; } }
#endif
#ifdef NEED__ZSt28_Rb_tree_rebalance_for_erasePSt18_Rb_tree_node_baseRS_
LL2C_RBNODE *F__ZSt28_Rb_tree_rebalance_for_erasePSt18_Rb_tree_node_baseRS_(LL2C_RBNODE *z, LL2C_RBNODE *h) {
  LL2C_RBNODE *repl; /* node that takes z's place (may be null) */
  if (RB_LEFT(z) == 0) repl = RB_RIGHT(z);
  else if (RB_RIGHT(z) == 0) repl = RB_LEFT(z);
  else { /* two children: successor y (leftmost of right subtree) replaces z */
    LL2C_RBNODE *y = RB_RIGHT(z); while (RB_LEFT(y)) y = RB_LEFT(y);
    if (RB_PARENT(y) != z) { RB_LEFT(RB_PARENT(y)) = RB_RIGHT(y); if (RB_RIGHT(y)) RB_PARENT(RB_RIGHT(y)) = RB_PARENT(y); RB_RIGHT(y) = RB_RIGHT(z); RB_PARENT(RB_RIGHT(z)) = y; }
    RB_LEFT(y) = RB_LEFT(z); RB_PARENT(RB_LEFT(z)) = y; repl = y; }
  LL2C_RBNODE *zp = RB_PARENT(z);
  if (repl) RB_PARENT(repl) = zp;
  if (RB_PARENT(h) == z) RB_PARENT(h) = repl; else if (RB_LEFT(zp) == z) RB_LEFT(zp) = repl; else RB_RIGHT(zp) = repl;
  if (RB_LEFT(h) == z) { if (RB_PARENT(h) == 0) RB_LEFT(h) = h; else { LL2C_RBNODE *m = RB_PARENT(h); while (RB_LEFT(m)) m = RB_LEFT(m); RB_LEFT(h) = m; } }
  if (RB_RIGHT(h) == z) { if (RB_PARENT(h) == 0) RB_RIGHT(h) = h; else { LL2C_RBNODE *m = RB_PARENT(h); while (RB_RIGHT(m)) m = RB_RIGHT(m); RB_RIGHT(h) = m; } }
  return z; }
#endif
#endif
