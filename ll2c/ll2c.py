#!/usr/bin/env python3
"""ll2c: translate (a subset of) textual LLVM-14 IR, as produced by
clang++-14 -O1 from the oRatio sources, into plain C that CBMC's C front end accepts.

PROTOTYPE written during the design phase to measure feasibility.
"""
import re, sys, collections

# ----------------------------------------------------------------------------
# tokenizer
# ----------------------------------------------------------------------------
TOK_RE = re.compile(r'''
    (?P<ws>\s+)
  | (?P<cstr>c"(?:[^"\\]|\\[0-9A-Fa-f]{2}|\\\\)*")
  | (?P<qid>[%@$]"(?:[^"\\]|\\.)*")
  | (?P<str>"(?:[^"\\]|\\.)*")
  | (?P<id>[%@$][-a-zA-Z$._0-9]+)
  | (?P<meta>![-a-zA-Z$._0-9]*)
  | (?P<attr>\#[0-9]+)
  | (?P<hex>0x[KLMHR]?[0-9A-Fa-f]+)
  | (?P<float>-?[0-9]+\.[0-9]*(?:[eE][-+]?[0-9]+)?)
  | (?P<int>-?[0-9]+)
  | (?P<dots>\.\.\.)
  | (?P<word>[a-zA-Z_][-a-zA-Z_0-9.]*)
  | (?P<punct><\{|\}>|[=,()\[\]{}<>*:])
''', re.X)


def tokenize(s):
    out = []
    pos = 0
    n = len(s)
    while pos < n:
        if s[pos] == ';':
            break
        m = TOK_RE.match(s, pos)
        if not m:
            raise SyntaxError("cannot tokenize at %r" % s[pos:pos + 40])
        pos = m.end()
        k = m.lastgroup
        if k == 'ws':
            continue
        out.append((k, m.group(k)))
    return out


class Toks:
    def __init__(self, toks, line=''):
        self.t = toks
        self.i = 0
        self.line = line

    def peek(self, k=0):
        j = self.i + k
        return self.t[j] if j < len(self.t) else ('eof', '')

    def next(self):
        tk = self.peek()
        self.i += 1
        return tk

    def accept(self, val):
        if self.peek()[1] == val:
            self.i += 1
            return True
        return False

    def expect(self, val):
        tk = self.next()
        if tk[1] != val:
            raise SyntaxError("expected %r got %r in: %s" % (val, tk, self.line))

    def eof(self):
        return self.i >= len(self.t)


# ----------------------------------------------------------------------------
# types
# ----------------------------------------------------------------------------
class Ty:
    pass


class IntTy(Ty):
    def __init__(self, n): self.n = n
    def key(self): return 'i%d' % self.n


class FloatTy(Ty):
    def __init__(self, kind): self.kind = kind
    def key(self): return self.kind


class VoidTy(Ty):
    def key(self): return 'void'


class PtrTy(Ty):
    def __init__(self, to): self.to = to
    def key(self): return self.to.key() + '*'


class NamedTy(Ty):
    def __init__(self, name): self.name = name
    def key(self): return self.name


class StructTy(Ty):
    def __init__(self, elems, packed=False): self.elems = elems; self.packed = packed
    def key(self): return ('<{' if self.packed else '{') + ','.join(e.key() for e in self.elems) + '}'


class ArrTy(Ty):
    def __init__(self, n, el): self.n = n; self.el = el
    def key(self): return '[%d x %s]' % (self.n, self.el.key())


class FnTy(Ty):
    def __init__(self, ret, params, vararg): self.ret = ret; self.params = params; self.vararg = vararg
    def key(self): return self.ret.key() + '(' + ','.join(p.key() for p in self.params) + (',...' if self.vararg else '') + ')'


class MetaTy(Ty):
    def key(self): return 'metadata'


def parse_type(tk):
    k, v = tk.next()
    if k == 'word':
        if v == 'void':
            t = VoidTy()
        elif re.fullmatch(r'i[0-9]+', v):
            t = IntTy(NARROW.get(int(v[1:]), int(v[1:])))
        elif v in ('float', 'double', 'x86_fp80', 'half', 'fp128'):
            t = FloatTy(v)
        elif v == 'metadata':
            t = MetaTy()
        elif v == 'opaque':
            t = NamedTy('opaque')
        elif v == 'label':
            t = NamedTy('label')
        else:
            raise SyntaxError("bad type word %r in %s" % (v, tk.line))
    elif k in ('id', 'qid'):
        t = NamedTy(v)
    elif v == '{' or v == '<{':
        packed = v == '<{'
        elems = []
        close = '}>' if packed else '}'
        if not tk.accept(close):
            while True:
                elems.append(parse_type(tk))
                if tk.accept(close):
                    break
                tk.expect(',')
        t = StructTy(elems, packed)
    elif v == '[':
        n = int(tk.next()[1])
        tk.expect('x')
        el = parse_type(tk)
        tk.expect(']')
        t = ArrTy(n, el)
    elif v == '<':
        n = int(tk.next()[1])
        tk.expect('x')
        el = parse_type(tk)
        tk.expect('>')
        raise SyntaxError("vector types unsupported: %s" % tk.line)
    else:
        raise SyntaxError("bad type start %r in %s" % ((k, v), tk.line))
    # suffixes
    while True:
        if tk.peek()[1] == '*':
            tk.next()
            t = PtrTy(t)
        elif tk.peek()[1] == 'addrspace':
            tk.next(); tk.expect('('); tk.next(); tk.expect(')')
        elif tk.peek()[1] == '(':
            tk.next()
            params = []
            vararg = False
            if not tk.accept(')'):
                while True:
                    if tk.peek()[0] == 'dots':
                        tk.next(); vararg = True
                    else:
                        params.append(parse_type(tk))
                    if tk.accept(')'):
                        break
                    tk.expect(',')
            t = FnTy(t, params, vararg)
        else:
            break
    return t


# ----------------------------------------------------------------------------
# values / constants
# ----------------------------------------------------------------------------
class Val:
    pass


class Local(Val):
    def __init__(self, name): self.name = name


class Global(Val):
    def __init__(self, name): self.name = name


class ConstInt(Val):
    def __init__(self, v): self.v = v


class ConstFP(Val):
    def __init__(self, text): self.text = text


class ConstNull(Val):
    pass


class ConstUndef(Val):
    pass


class ConstZero(Val):
    pass


class ConstStr(Val):
    def __init__(self, data): self.data = data


class ConstAgg(Val):
    def __init__(self, elems, kind): self.elems = elems; self.kind = kind  # list of (ty,val)


class ConstExpr(Val):
    def __init__(self, op, args, ty=None, srcty=None, pred=None):
        self.op = op; self.args = args; self.ty = ty; self.srcty = srcty; self.pred = pred


PARAM_ATTRS = {'noundef', 'nonnull', 'nocapture', 'readonly', 'writeonly', 'readnone', 'zeroext', 'signext', 'noalias',
               'returned', 'immarg', 'inreg', 'nest', 'nofree', 'swiftself', 'swifterror', 'inalloca'}
PARAM_ATTRS_ARG = {'align', 'dereferenceable', 'dereferenceable_or_null', 'byval', 'sret', 'byref', 'preallocated', 'elementtype'}

CAST_OPS = {'trunc', 'zext', 'sext', 'fptrunc', 'fpext', 'fptoui', 'fptosi', 'uitofp', 'sitofp', 'ptrtoint', 'inttoptr', 'bitcast', 'addrspacecast'}
BIN_OPS = {'add', 'sub', 'mul', 'udiv', 'sdiv', 'urem', 'srem', 'shl', 'lshr', 'ashr', 'and', 'or', 'xor', 'fadd', 'fsub', 'fmul', 'fdiv', 'frem'}


def cstr_decode(tok):
    s = tok[2:-1]
    out = bytearray()
    i = 0
    while i < len(s):
        if s[i] == '\\':
            if s[i + 1] == '\\':
                out.append(92); i += 2
            else:
                out.append(int(s[i + 1:i + 3], 16)); i += 3
        else:
            out.extend(s[i].encode('utf-8')); i += 1
    return bytes(out)


def parse_value(tk, ty):
    k, v = tk.peek()
    if k in ('id', 'qid'):
        tk.next()
        return Local(v) if v[0] == '%' else Global(v)
    if k == 'int':
        tk.next(); return ConstInt(int(v))
    if k == 'float' or k == 'hex':
        tk.next(); return ConstFP(v)
    if k == 'cstr':
        tk.next(); return ConstStr(cstr_decode(v))
    if k == 'word':
        if v == 'true': tk.next(); return ConstInt(1)
        if v == 'false': tk.next(); return ConstInt(0)
        if v == 'null': tk.next(); return ConstNull()
        if v in ('undef', 'poison'): tk.next(); return ConstUndef()
        if v == 'zeroinitializer': tk.next(); return ConstZero()
        if v == 'getelementptr':
            tk.next()
            tk.accept('inbounds')
            tk.expect('(')
            srcty = parse_type(tk)
            tk.expect(',')
            args = []
            while True:
                t = parse_type(tk)
                while tk.peek()[1] == 'inrange': tk.next()
                a = parse_value(tk, t)
                args.append((t, a))
                if tk.accept(')'): break
                tk.expect(',')
                while tk.peek()[1] == 'inrange': tk.next()
            return ConstExpr('getelementptr', args, srcty=srcty)
        if v in CAST_OPS:
            tk.next(); tk.expect('(')
            t = parse_type(tk); a = parse_value(tk, t)
            tk.expect('to'); t2 = parse_type(tk); tk.expect(')')
            return ConstExpr(v, [(t, a)], ty=t2)
        if v in BIN_OPS:
            tk.next()
            while tk.peek()[1] in ('nuw', 'nsw', 'exact'): tk.next()
            tk.expect('(')
            t = parse_type(tk); a = parse_value(tk, t); tk.expect(',')
            t2 = parse_type(tk); b = parse_value(tk, t2); tk.expect(')')
            return ConstExpr(v, [(t, a), (t2, b)], ty=t)
        if v == 'icmp':
            tk.next(); pred = tk.next()[1]; tk.expect('(')
            t = parse_type(tk); a = parse_value(tk, t); tk.expect(',')
            t2 = parse_type(tk); b = parse_value(tk, t2); tk.expect(')')
            return ConstExpr('icmp', [(t, a), (t2, b)], pred=pred)
        if v == 'select':
            tk.next(); tk.expect('(')
            args = []
            for i in range(3):
                t = parse_type(tk); a = parse_value(tk, t); args.append((t, a))
                if i < 2: tk.expect(',')
            tk.expect(')')
            return ConstExpr('select', args)
        raise SyntaxError("bad value word %r in %s" % (v, tk.line))
    if v in ('{', '<{', '['):
        tk.next()
        kind = v
        close = {'{': '}', '<{': '}>', '[': ']'}[v]
        elems = []
        if not tk.accept(close):
            while True:
                t = parse_type(tk); a = parse_value(tk, t); elems.append((t, a))
                if tk.accept(close): break
                tk.expect(',')
        return ConstAgg(elems, kind)
    if v == '<':
        # packed struct constant "<{ ... }>" is tokenised as '<{'; a plain '<' is a vector
        raise SyntaxError("vector constant unsupported: %s" % tk.line)
    raise SyntaxError("bad value %r in %s" % ((k, v), tk.line))


def skip_param_attrs(tk):
    attrs = {}
    while True:
        k, v = tk.peek()
        if k == 'word' and v in PARAM_ATTRS:
            tk.next(); attrs[v] = True
        elif k == 'word' and v in PARAM_ATTRS_ARG:
            tk.next()
            if tk.peek()[1] == '(':
                tk.next()
                depth = 1
                start = tk.i
                # byval(T)/sret(T): parse type
                if v in ('byval', 'sret', 'byref', 'elementtype', 'preallocated'):
                    attrs[v] = parse_type(tk)
                    tk.expect(')')
                else:
                    attrs[v] = tk.next()[1]
                    tk.expect(')')
            else:
                attrs[v] = tk.next()[1]  # align N
        else:
            break
    return attrs


# ----------------------------------------------------------------------------
# module structures
# ----------------------------------------------------------------------------
class Instr:
    def __init__(self, res, op):
        self.res = res; self.op = op


class Func:
    def __init__(self):
        self.name = None; self.ret = None; self.params = []  # (ty, name, attrs)
        self.vararg = False; self.blocks = collections.OrderedDict(); self.attrs = set(); self.is_decl = False
        self.attrgroups = []


class Module:
    def __init__(self):
        self.types = collections.OrderedDict()  # name -> Ty or None (opaque)
        self.globals = collections.OrderedDict()  # name -> (ty, init val or None, is_const)
        self.aliases = {}
        self.funcs = collections.OrderedDict()
        self.attrgroups = {}
        self.ctors = []


RET_ATTRS = {'noundef', 'nonnull', 'zeroext', 'signext', 'noalias', 'inreg'}
LINKAGE = {'private', 'internal', 'available_externally', 'linkonce', 'weak', 'common', 'appending', 'extern_weak', 'linkonce_odr', 'weak_odr', 'external',
           'dso_local', 'dso_preemptable', 'default', 'hidden', 'protected', 'dllimport', 'dllexport', 'thread_local', 'unnamed_addr', 'local_unnamed_addr',
           'externally_initialized'}
CCONV = {'ccc', 'fastcc', 'coldcc', 'tailcc', 'swiftcc'}


def parse_fn_header(tk, f):
    while tk.peek()[0] == 'word' and (tk.peek()[1] in LINKAGE or tk.peek()[1] in CCONV):
        tk.next()
    while tk.peek()[0] == 'word' and (tk.peek()[1] in RET_ATTRS or tk.peek()[1] in PARAM_ATTRS_ARG):
        skip_param_attrs(tk)
    f.ret = parse_type_noparen(tk)
    f.name = tk.next()[1]
    tk.expect('(')
    idx = 0
    if not tk.accept(')'):
        while True:
            if tk.peek()[0] == 'dots':
                tk.next(); f.vararg = True
            else:
                t = parse_type(tk)
                attrs = skip_param_attrs(tk)
                nm = None
                if tk.peek()[0] in ('id', 'qid'):
                    nm = tk.next()[1]
                f.params.append((t, nm, attrs))
            if tk.accept(')'): break
            tk.expect(',')
    # trailing attributes
    while not tk.eof():
        k, v = tk.next()
        if k == 'attr':
            f.attrgroups.append(v)
        elif k == 'word' and v in ('nounwind',):
            f.attrs.add(v)
        elif v == 'personality':
            t = parse_type(tk); parse_value(tk, t)
        elif v in ('comdat',):
            if tk.peek()[1] == '(':
                tk.next(); tk.next(); tk.expect(')')
        elif v in ('align', 'section', 'gc', 'prefix', 'prologue'):
            tk.next()
        elif v == '{':
            break


def parse_type_noparen(tk):
    """parse a return type in a define/declare: function-type suffix must NOT be consumed
    (the '(' belongs to the parameter list) unless followed by '*'."""
    # strategy: parse base + pointer stars; a '(' right after is ambiguous only for functions
    # returning function pointers, which look like  'void (i8*)* @name(' -- handle by lookahead.
    save = tk.i
    t = parse_type(tk)
    # if we swallowed the parameter list, the next token is not an identifier -> backtrack
    if tk.peek()[0] in ('id', 'qid') and tk.peek()[1][0] == '@':
        return t
    tk.i = save
    # parse without fn suffix
    k, v = tk.next()
    tk.i = save
    return parse_type_limited(tk)


def parse_type_limited(tk):
    # like parse_type but stops before '(' that is followed eventually by ') @name' ... simple approach:
    k, v = tk.next()
    if k == 'word':
        if v == 'void': t = VoidTy()
        elif re.fullmatch(r'i[0-9]+', v): t = IntTy(NARROW.get(int(v[1:]), int(v[1:])))
        else: t = FloatTy(v)
    elif k in ('id', 'qid'):
        t = NamedTy(v)
    elif v in ('{', '<{'):
        tk.i -= 1
        # struct literal: safe to use parse_type on the braces only
        packed = v == '<{'
        tk.next()
        close = '}>' if packed else '}'
        elems = []
        if not tk.accept(close):
            while True:
                elems.append(parse_type(tk))
                if tk.accept(close): break
                tk.expect(',')
        t = StructTy(elems, packed)
    elif v == '[':
        n = int(tk.next()[1]); tk.expect('x'); el = parse_type(tk); tk.expect(']')
        t = ArrTy(n, el)
    else:
        raise SyntaxError("ret type? %s" % tk.line)
    while tk.peek()[1] == '*':
        tk.next(); t = PtrTy(t)
    return t


def strip_meta(toks):
    """drop ', !foo !N' metadata attachments and trailing '!srcloc' etc."""
    out = []
    i = 0
    n = len(toks)
    while i < n:
        k, v = toks[i]
        if k == 'meta':
            # remove preceding comma if any
            if out and out[-1][1] == ',':
                out.pop()
            # skip this and following meta tokens / DIExpression(...)
            i += 1
            while i < n and toks[i][0] == 'meta':
                i += 1
            continue
        out.append(toks[i])
        i += 1
    return out


def parse_module(text):
    m = Module()
    lines = text.split('\n')
    i = 0
    cur = None
    curblock = None
    while i < len(lines):
        line = lines[i]
        i += 1
        s = line.strip()
        if not s or s.startswith(';'):
            continue
        if cur is None:
            if s.startswith('source_filename') or s.startswith('target ') or s.startswith('!') or s.startswith('module asm'):
                continue
            if s.startswith('$'):
                continue
            if s.startswith('attributes #'):
                mm = re.match(r'attributes (#\d+) = \{(.*)\}', s)
                m.attrgroups[mm.group(1)] = set(re.findall(r'[a-z_]+', re.sub(r'"[^"]*"(="[^"]*")?', '', mm.group(2))))
                continue
            toks = strip_meta(tokenize(s))
            tk = Toks(toks, s)
            k, v = tk.peek()
            if v == 'define' or v == 'declare':
                tk.next()
                f = Func()
                f.is_decl = v == 'declare'
                parse_fn_header(tk, f)
                m.funcs[f.name] = f
                if not f.is_decl:
                    cur = f
                    curblock = None
                continue
            if k in ('id', 'qid') and v[0] == '%':
                # type definition
                name = tk.next()[1]; tk.expect('='); tk.expect('type')
                if tk.peek()[1] == 'opaque':
                    m.types[name] = None
                else:
                    m.types[name] = parse_type(tk)
                continue
            if k in ('id', 'qid') and v[0] == '@':
                name = tk.next()[1]; tk.expect('=')
                is_const = False
                is_alias = False
                external = False
                while True:
                    k2, v2 = tk.peek()
                    if k2 == 'word' and v2 in LINKAGE:
                        if v2 in ('external', 'extern_weak'): external = True
                        tk.next()
                        if v2 == 'thread_local' and tk.peek()[1] == '(':
                            tk.next(); tk.next(); tk.expect(')')
                    elif v2 == 'global': tk.next(); break
                    elif v2 == 'constant': tk.next(); is_const = True; break
                    elif v2 == 'alias': tk.next(); is_alias = True; break
                    elif v2 == 'addrspace': tk.next(); tk.expect('('); tk.next(); tk.expect(')')
                    else: raise SyntaxError("global? " + s)
                if is_alias:
                    t = parse_type(tk); tk.expect(',')
                    t2 = parse_type(tk); tgt = parse_value(tk, t2)
                    m.aliases[name] = (t, tgt)
                    continue
                t = parse_type(tk)
                init = None
                if not external and not tk.eof() and tk.peek()[1] not in (',',):
                    init = parse_value(tk, t)
                m.globals[name] = (t, init, is_const)
                continue
            raise SyntaxError("unhandled top-level: " + s)
        else:
            if s == '}':
                cur = None
                continue
            mm = re.match(r'^([-a-zA-Z$._0-9]+|"[^"]*"):', s)
            if mm:
                lbl = mm.group(1)
                curblock = []
                cur.blocks['%' + lbl] = curblock
                continue
            if curblock is None:
                curblock = []
                cur.blocks['%ENTRY'] = curblock
            # multi-line switch
            if re.search(r'\bswitch\b', s) and s.endswith('['):
                while not lines[i].strip().startswith(']'):
                    s += ' ' + lines[i].strip(); i += 1
                s += ' ]'; i += 1
            if re.search(r'\binvoke\b', s) and i < len(lines) and re.match(r'^\s+to label', lines[i]):
                s += ' ' + lines[i].strip(); i += 1
            # landingpad continuation lines (cleanup / catch / filter)
            if re.search(r'=\s*landingpad\b', s):
                while i < len(lines) and re.match(r'^\s+(cleanup|catch|filter)\b', lines[i]):
                    s += ' ' + lines[i].strip(); i += 1
            curblock.append(s)
    return m


# ----------------------------------------------------------------------------
# C emission
# ----------------------------------------------------------------------------
def mangle(name):
    n = name
    if n[0] in '%@':
        n = n[1:]
    if n.startswith('"'):
        n = n[1:-1]
    out = []
    for ch in n:
        if ch.isalnum() or ch == '_':
            out.append(ch)
        else:
            out.append('_%02x' % ord(ch))
    return ''.join(out)


class Emitter:
    def __init__(self, m, opts):
        self.m = m
        self.opts = opts
        self.anon = collections.OrderedDict()  # key -> (cname, Ty)
        self.fnptr_typedefs = collections.OrderedDict()
        self.out = []
        self.struct_order = []
        self.emitted_structs = set()
        self.nounwind_cache = {}
        self.needs = []

    # ---- types
    def cty(self, t):
        if isinstance(t, IntTy):
            n = t.n
            if n == 1: return '_Bool'
            if n <= 8: return 'u8'
            if n <= 16: return 'u16'
            if n <= 32: return 'u32'
            if n <= 64: return 'u64'
            if n <= 128: return 'u128'
            raise SyntaxError("int width %d" % n)
        if isinstance(t, FloatTy):
            return {'float': 'float', 'double': 'double', 'x86_fp80': 'long double', 'fp128': 'long double', 'half': 'float'}[t.kind]
        if isinstance(t, VoidTy): return 'void'
        if isinstance(t, PtrTy):
            if isinstance(t.to, FnTy):
                return self.fnptr_name(t.to)
            if isinstance(t.to, VoidTy): return 'u8*'
            return self.cty(t.to) + '*'
        if isinstance(t, NamedTy):
            return 'struct ' + self.sname(t.name)
        if isinstance(t, (StructTy, ArrTy)):
            return 'struct ' + self.anon_name(t)
        if isinstance(t, FnTy):
            # bare function type (only valid behind pointer); caller handles
            return self.fnptr_name(t) + '_fn'
        if isinstance(t, MetaTy): return 'int'
        raise SyntaxError("cty %r" % t)

    def sname(self, name):
        return 'S_' + mangle(name)

    def anon_name(self, t):
        key = t.key()
        if key not in self.anon:
            if isinstance(t, ArrTy):
                nm = 'A%d_%d' % (len(self.anon), t.n)
            else:
                nm = 'L%d' % len(self.anon)
            self.anon[key] = (nm, t)
            # make sure nested are registered
            if isinstance(t, ArrTy):
                self.cty(t.el)
            else:
                for e in t.elems: self.cty(e)
        return self.anon[key][0]

    def fnptr_name(self, ft):
        key = ft.key()
        if key not in self.fnptr_typedefs:
            nm = 'FP%d' % len(self.fnptr_typedefs)
            self.fnptr_typedefs[key] = (nm, ft)
            self.cty(ft.ret)
            for p in ft.params: self.cty(p)
        return self.fnptr_typedefs[key][0]

    def size_align(self, t):
        t2 = self.resolve(t)
        if t2 is None: return (None, 1)
        if isinstance(t2, IntTy):
            n = t2.n
            b = 1 if n <= 8 else 2 if n <= 16 else 4 if n <= 32 else 8 if n <= 64 else 16
            return (b, b)
        if isinstance(t2, FloatTy):
            b = {'float': 4, 'double': 8, 'x86_fp80': 16, 'fp128': 16, 'half': 2}[t2.kind]
            return (b, b)
        if isinstance(t2, PtrTy): return (8, 8)
        if isinstance(t2, ArrTy):
            sz, al = self.size_align(t2.el)
            return (None if sz is None else sz * t2.n, al)
        if isinstance(t2, StructTy):
            off = 0; mal = 1
            for e in t2.elems:
                sz, al = self.size_align(e)
                if sz is None: return (None, 1)
                if t2.packed: al = 1
                off = (off + al - 1) // al * al
                off += sz; mal = max(mal, al)
            off = (off + mal - 1) // mal * mal
            return (off, mal)
        return (None, 1)

    def is_bytestruct(self, t):
        """C++ unions that overlay characters and a word (std::string's SSO buffer  union { char buf[16]; size_t cap; },
        LLVM  { i64, [8 x i8] }) are emitted as  struct { u8 a[N]; }  so that characters are plain array cells;
        the word member is accessed through a cast."""
        if not isinstance(t, NamedTy) or not t.name.lstrip('%"').startswith('union.'): return False
        r = self.m.types.get(t.name)
        if not isinstance(r, StructTy) or len(r.elems) != 2: return False
        a, b = r.elems
        return isinstance(a, IntTy) and a.n == 64 and isinstance(b, ArrTy) and isinstance(b.el, IntTy) and b.el.n == 8

    def leaves(self, t, base=0, out=None):
        """flatten a type into [(byte offset, C scalar type)] ; None if it contains something that cannot be flattened"""
        if out is None: out = []
        r = self.resolve(t)
        if r is None: return None
        if isinstance(r, IntTy):
            if r.n not in (8, 16, 32, 64): return None
            out.append((base, {8: 'u8', 16: 'u16', 32: 'u32', 64: 'u64'}[r.n])); return out
        if isinstance(r, FloatTy):
            out.append((base, self.cty(r))); return out
        if isinstance(r, PtrTy):
            out.append((base, 'u8*' if not isinstance(r.to, FnTy) else self.cty(r))); return out
        if isinstance(t, NamedTy) and self.is_bytestruct(t):
            for i in range(self.size_align(t)[0]): out.append((base + i, 'u8'))
            return out
        if isinstance(r, ArrTy):
            sz = self.size_align(r.el)[0]
            if sz is None: return None
            for i in range(r.n):
                if self.leaves(r.el, base + i * sz, out) is None: return None
                if len(out) > 24: return None
            return out
        if isinstance(r, StructTy):
            for i, e in enumerate(r.elems):
                if self.leaves(e, base + self.field_offset(r, i), out) is None: return None
                if len(out) > 24: return None
            return out
        return None

    def field_offset(self, st, idx):
        off = 0
        for i, e in enumerate(st.elems):
            sz, al = self.size_align(e)
            if st.packed: al = 1
            off = (off + al - 1) // al * al
            if i == idx: return off
            off += sz
        raise SyntaxError('field_offset')

    def resolve(self, t):
        if isinstance(t, NamedTy):
            r = self.m.types.get(t.name)
            return r
        return t

    # ---- constants
    def const(self, t, v, static=False):
        """C expression for constant v of type t. static=True: must be a valid static initialiser."""
        if isinstance(v, ConstInt):
            if isinstance(t, IntTy):
                if t.n == 1: return '1' if v.v else '0'
                val = v.v & ((1 << t.n) - 1)
                if t.n > 64:
                    return '(((u128)%dULL << 64) | (u128)%dULL)' % (val >> 64, val & ((1 << 64) - 1))
                return '%dU%s' % (val, 'LL' if t.n > 32 else '')
            return str(v.v)
        if isinstance(v, ConstFP):
            return self.fpconst(t, v.text)
        if isinstance(v, ConstNull):
            return '((%s)0)' % self.cty(t)
        if isinstance(v, ConstUndef):
            return self.zero(t, static)
        if isinstance(v, ConstZero):
            return self.zero(t, static)
        if isinstance(v, ConstStr):
            return '{{' + ','.join(str(b) for b in v.data) + '}}'
        if isinstance(v, ConstAgg):
            rt = self.resolve(t)
            if isinstance(rt, ArrTy):
                body = '{{' + ','.join(self.const(et, ev, static) for et, ev in v.elems) + '}}'
            else:
                body = '{' + ','.join(self.const(et, ev, static) for et, ev in v.elems) + '}'
            if static: return body
            return '((%s)%s)' % (self.cty(t), body)
        if isinstance(v, Global):
            return self.gref(v.name)
        if isinstance(v, Local):
            raise SyntaxError("local in const")
        if isinstance(v, ConstExpr):
            return self.constexpr(t, v, static)
        raise SyntaxError("const %r" % v)

    def fpconst(self, t, text):
        import struct
        if text.startswith('0x'):
            if text[2] in 'KLMHR':
                raise SyntaxError("fp80 const")
            bits = int(text, 16)
            d = struct.unpack('<d', struct.pack('<Q', bits))[0]
            if d != d: return '(0.0/0.0)'
            if d in (float('inf'), float('-inf')): return '(%s1.0/0.0)' % ('-' if d < 0 else '')
            return repr(d)
        return text

    def zero(self, t, static=False):
        rt = self.resolve(t)
        if isinstance(rt, (IntTy,)): return '0'
        if isinstance(rt, FloatTy): return '0.0'
        if isinstance(rt, PtrTy): return '((%s)0)' % self.cty(t)
        if static: return '{0}'
        return '((%s){0})' % self.cty(t)

    def gref(self, name):
        """expression denoting the address (pointer value) of global/function `name`"""
        if name in self.m.aliases:
            t, tgt = self.m.aliases[name]
            return self.gref(tgt.name) if isinstance(tgt, Global) else self.const(t, tgt)
        return '(&' + self.gname(name) + ')'

    def gname(self, name):
        n = mangle(name)
        if name in self.m.funcs:
            return n if not n.startswith('_Z') else 'F_' + n
        return 'G_' + n

    def is_external_passthrough(self, n):
        return n in PASSTHROUGH

    def constexpr(self, t, v, static):
        if v.op == 'getelementptr':
            (bt, base) = v.args[0]
            return self.gep_expr(v.srcty, self.const(bt, base, static), [(it, self.const(it, iv, static), iv) for it, iv in v.args[1:]])
        if v.op in ('bitcast', 'inttoptr', 'ptrtoint', 'addrspacecast'):
            (st, sv) = v.args[0]
            return '((%s)%s)' % (self.cty(v.ty), self.const(st, sv, static))
        if v.op in ('trunc', 'zext'):
            (st, sv) = v.args[0]
            return '((%s)%s)' % (self.cty(v.ty), self.const(st, sv, static))
        if v.op in ('add', 'sub', 'mul'):
            (at, a), (bt, b) = v.args
            return '(%s %s %s)' % (self.const(at, a, static), {'add': '+', 'sub': '-', 'mul': '*'}[v.op], self.const(bt, b, static))
        raise SyntaxError("constexpr %s" % v.op)

    # ---- GEP
    def gep_expr(self, srcty, base, idxs):
        """base: C expr of type srcty*.  idxs: list of (ty, cexpr, rawval)."""
        it0, e0, raw0 = idxs[0]
        if isinstance(raw0, ConstInt) and raw0.v == 0:
            cur = '(*%s)' % base
        else:
            cur = '(%s)[%s]' % (base, self.sidx(it0, e0, raw0))
        ct = srcty
        for it, e, raw in idxs[1:]:
            rt = self.resolve(ct)
            if rt is None:
                raise SyntaxError("GEP into opaque")
            if isinstance(rt, StructTy):
                assert isinstance(raw, ConstInt)
                if self.is_bytestruct(ct):
                    cur = '(*(%s*)&%s.a[%d])' % (self.cty(rt.elems[raw.v]), cur, self.field_offset(rt, raw.v))
                else:
                    cur = '%s.f%d' % (cur, raw.v)
                ct = rt.elems[raw.v]
            elif isinstance(rt, ArrTy):
                cur = '%s.a[%s]' % (cur, self.sidx(it, e, raw))
                ct = rt.el
            else:
                raise SyntaxError("GEP through %r" % rt)
        return '(&%s)' % cur

    def sidx(self, it, e, raw):
        if isinstance(raw, ConstInt):
            return str(raw.v)
        # signed index
        n = it.n
        return '(%s)%s' % ({8: 'i8', 16: 'i16', 32: 'i32', 64: 'i64'}[n], e)

    def gep_result_type(self, srcty, idxs):
        ct = srcty
        for it, e, raw in idxs[1:]:
            rt = self.resolve(ct)
            if isinstance(rt, StructTy):
                ct = rt.elems[raw.v]
            elif isinstance(rt, ArrTy):
                ct = rt.el
        return PtrTy(ct)

    # ---- struct definitions
    def emit_struct_defs(self):
        lines = []
        done = set()
        visiting = set()

        def need(t):
            # by-value dependency
            if isinstance(t, NamedTy):
                define_named(t.name)
            elif isinstance(t, (StructTy, ArrTy)):
                define_anon(t)

        def body(elems, packed):
            s = '{ '
            if not elems:
                s += 'u8 __empty[0]; '
            for i, e in enumerate(elems):
                s += self.field_decl(e, 'f%d' % i) + '; '
            s += '}' + (' __attribute__((packed))' if packed else '')
            return s

        def define_named(name):
            if name in done: return
            if name in visiting: raise SyntaxError("recursive by-value struct " + name)
            t = self.m.types.get(name)
            if t is None:
                done.add(name); return
            visiting.add(name)
            if self.is_bytestruct(NamedTy(name)):
                lines.append('struct %s { u8 a[%d]; };' % (self.sname(name), self.size_align(t)[0]))
                # the member types must still exist (casts refer to them)
                for e in t.elems: need(e)
            elif isinstance(t, StructTy):
                for e in t.elems: need(e)
                lines.append('struct %s %s;' % (self.sname(name), body(t.elems, t.packed)))
            else:
                need(t)
                lines.append('struct %s { %s; };' % (self.sname(name), self.field_decl(t, 'f0')))
            visiting.discard(name)
            done.add(name)

        def define_anon(t):
            key = t.key()
            nm = self.anon_name(t)
            if key in done: return
            if isinstance(t, ArrTy):
                need(t.el)
                lines.append('struct %s { %s a[%d]; };' % (nm, self.cty(t.el), max(t.n, 0)))
            else:
                for e in t.elems: need(e)
                lines.append('struct %s %s;' % (nm, body(t.elems, t.packed)))
            done.add(key)

        # iterate to fixpoint because defining may register new anon types
        for name in list(self.m.types):
            define_named(name)
        k = 0
        while True:
            keys = list(self.anon)
            if k >= len(keys): break
            define_anon(self.anon[keys[k]][1])
            k += 1
        return lines

    def field_decl(self, t, nm):
        return '%s %s' % (self.cty(t), nm)


NARROW = {}
ZERO_STUBS = {'__cxa_allocate_exception', '__cxa_free_exception', '_ZNSt16invalid_argumentC1EPKc', '_ZNSt16invalid_argumentD1Ev', '_ZNSt16invalid_argumentC1ERKNSt7__cxx1112basic_stringIcSt11char_traitsIcESaIcEEE', '_ZNSt12out_of_rangeC1EPKc', '_ZNSt12out_of_rangeD1Ev', '__cxa_atexit', '_ZNKSt8__detail20_Prime_rehash_policy14_M_need_rehashEmmm', '_ZSt11_Hash_bytesPKvmm', '_ZNSt8ios_base4InitC1Ev', '_ZNSt8ios_base4InitD1Ev'}
PRELUDE_FUNCS = {'malloc','free','memcpy','memmove','memset','memcmp','bcmp','strlen','memchr','ceil','floor','sqrt','fabs','pow','fmod','trunc','round'}

INT_SIGNED = {8: 'i8', 16: 'i16', 32: 'i32', 64: 'i64', 128: 'i128'}


class FnEmitter:
    def __init__(self, em, f):
        self.em = em; self.f = f; self.m = em.m
        self.vtypes = {}   # local name -> Ty
        self.lines = []
        self.decls = []
        self.phis = {}     # block -> list of (res, ty, [(val, pred)])
        self.tmpn = 0
        self.p2i = {}

    def lname(self, name):
        return 'v_' + mangle(name)

    def blk(self, name):
        return 'B_' + mangle(name)

    def val(self, t, v):
        if isinstance(v, Local):
            return self.lname(v.name)
        return self.em.const(t, v)

    def sgn(self, t, e):
        n = t.n
        if n in INT_SIGNED:
            return '((%s)%s)' % (INT_SIGNED[n], e)
        if n == 1:
            return '((i8)(%s ? -1 : 0))' % e
        # odd width: sign extend inside 64 bits
        w = 64 if n <= 64 else 128
        return '((%s)((%s)((%s)%s << %d)) >> %d)' % (INT_SIGNED[w], INT_SIGNED[w], 'u64' if w == 64 else 'u128', e, w - n, w - n)

    def mask(self, t, e):
        n = t.n
        if n in (8, 16, 32, 64, 128):
            return '((%s)(%s))' % (self.em.cty(t), e)
        if n == 1:
            return '((_Bool)((%s) & 1))' % e
        return '((%s)((%s) & %dULL))' % (self.em.cty(t), e, (1 << n) - 1)

    def define(self, res, t, expr):
        self.vtypes[res] = t
        self.lines.append('  %s = %s;' % (self.lname(res), expr))

    def may_throw(self, callee_name, call_attr_groups):
        if not self.em.opts.get('exceptions', True):
            return False
        for g in call_attr_groups:
            if 'nounwind' in self.m.attrgroups.get(g, ()):
                return False
        if callee_name is None:
            return True
        if callee_name.startswith('@llvm.') or callee_name.startswith('@nondet_') or callee_name.startswith('@__CPROVER'):
            return False
        f = self.m.funcs.get(callee_name)
        if f is None:
            return True
        if 'nounwind' in f.attrs: return False
        for g in f.attrgroups:
            if 'nounwind' in self.m.attrgroups.get(g, ()):
                return False
        return True

    def dummy_ret(self):
        t = self.f.ret
        if isinstance(t, VoidTy):
            return 'return;'
        return 'return %s;' % self.em.zero(t)

    # -------------------------------------------------------------- main
    def emit(self):
        f = self.f
        em = self.em
        # first pass: collect phis (need types of results before use) & result types
        parsed = collections.OrderedDict()
        for bname, lines in f.blocks.items():
            pl = []
            for s in lines:
                toks = strip_meta(tokenize(s))
                pl.append((s, toks))
            parsed[bname] = pl
        # typed allocation recovery: operator new result -> the struct type it is first used as
        self.alloc_ty = {}
        news = {}
        for bname, pl in parsed.items():
            for s_, toks in pl:
                mm = re.match(r'\s*(%[-\w.$"]+) = (?:call|invoke) [^@]*@_Zn[wa]m\(i64 (?:noundef )?([^)]+)\)', s_)
                if mm: news[mm.group(1)] = mm.group(2).strip()
        if news:
            cands = collections.defaultdict(list)
            for bname, pl in parsed.items():
                for s_, toks in pl:
                    mm = re.match(r'\s*%[-\w.$"]+ = bitcast i8\* (%[-\w.$"]+) to (.*)\*$', s_.split(', !')[0].strip())
                    if mm and mm.group(1) in news:
                        try:
                            ty = parse_type(Toks(tokenize(mm.group(2)), s_))
                        except Exception:
                            continue
                        cands[mm.group(1)].append(ty)
            # result stored into a typed slot through a cast:  %q = bitcast T** %p to i8** ; store i8* %x, i8** %q
            slot = {}
            for bname, pl in parsed.items():
                for s_, toks in pl:
                    mm = re.match(r'\s*(%[-\w.$"]+) = bitcast (.*)\*\* (%[-\w.$"]+) to i8\*\*$', s_.split(', !')[0].strip())
                    if mm:
                        try:
                            slot[mm.group(1)] = parse_type(Toks(tokenize(mm.group(2)), s_))
                        except Exception:
                            pass
            for bname, pl in parsed.items():
                for s_, toks in pl:
                    mm = re.match(r'\s*store i8\* (%[-\w.$"]+), i8\*\* (%[-\w.$"]+)', s_)
                    if mm and mm.group(1) in news and mm.group(2) in slot:
                        cands[mm.group(1)].append(slot[mm.group(2)])
            for x, tys in cands.items():
                n = news[x]
                pick = None
                if re.fullmatch(r'\d+', n):
                    for ty in tys:
                        if em.size_align(ty)[0] == int(n): pick = ty; break
                    if pick is None:
                        # array allocation of constant byte size (e.g. a std::deque node: 512 bytes of lit)
                        for ty in tys:
                            sz = em.size_align(ty)[0]
                            if sz and int(n) % sz == 0 and not (isinstance(ty, IntTy) and ty.n == 8): pick = ty; break
                else:
                    for ty in tys:
                        sz = em.size_align(ty)[0]
                        if sz and not (isinstance(ty, IntTy) and ty.n == 8): pick = ty; break
                if pick is not None and not (isinstance(pick, IntTy) and pick.n == 8):
                    self.alloc_ty[x] = pick
        # typed memcpy/memmove/memset: remember  %x = bitcast T* %y to i8*
        self.i8_origin = {}
        for bname, pl in parsed.items():
            for s_, toks in pl:
                mm = re.match(r'\s*(%[-\w.$"]+) = bitcast (.*)\* (%[-\w.$"]+) to i8\*$', s_.split(', !')[0].strip())
                if mm:
                    try:
                        ty = parse_type(Toks(tokenize(mm.group(2)), s_))
                    except Exception:
                        continue
                    if isinstance(ty, IntTy) and ty.n == 8: continue
                    if em.size_align(ty)[0]:
                        self.i8_origin[mm.group(1)] = ty
        for x, ty in self.alloc_ty.items():
            self.i8_origin.setdefault(x, ty)
        # %x = getelementptr inbounds T, T* %p, i64 0, i32 0, ... (all zero) yielding i8*: the address of T's first byte
        for bname, pl in parsed.items():
            for s_, toks in pl:
                mm = re.match(r'\s*(%[-\w.$"]+) = getelementptr inbounds (.*), (.*)\* (%[-\w.$"]+)((?:, i(?:32|64) 0)+)$', s_.split(', !')[0].strip())
                if mm and mm.group(1) not in self.i8_origin:
                    try:
                        ty = parse_type(Toks(tokenize(mm.group(2)), s_))
                        idxs = [(IntTy(32), '0', ConstInt(0))] * mm.group(5).count(', i')
                        rt = em.gep_result_type(ty, idxs)
                    except Exception:
                        continue
                    if isinstance(rt, PtrTy) and isinstance(rt.to, IntTy) and rt.to.n == 8 and em.size_align(ty)[0] and not (isinstance(ty, IntTy) and ty.n == 8):
                        self.i8_origin[mm.group(1)] = ty
        # params
        params = []
        for idx, (t, nm, attrs) in enumerate(f.params):
            if nm is None:
                nm = '%' + str(idx)
            self.vtypes[nm] = t
            params.append('%s %s' % (em.cty(t), self.lname(nm)))
        if f.vararg:
            params.append('...')
        entry_label = None
        first = True
        body = []
        for bname, pl in parsed.items():
            self.lines = []
            if bname == '%ENTRY':
                # implicit entry label: number = count of params (unnamed) -- label unknown until referenced; compute
                pass
            self.lines.append('%s: ;' % self.blk(self.block_label(bname)))
            for s, toks in pl:
                try:
                    self.instr(Toks(toks, s), bname)
                except Exception as e:
                    raise SyntaxError("in %s: %s\n  %s" % (f.name, e, s))
            body.append(self.lines)
        # byval params: copy
        pro = []
        for idx, (t, nm, attrs) in enumerate(f.params):
            if 'byval' in attrs:
                nm2 = nm if nm else '%' + str(idx)
                ct = em.cty(attrs['byval'])
                pro.append('  %s byval_%d = *%s; %s = &byval_%d;' % (ct, idx, self.lname(nm2), self.lname(nm2), idx))
        hdr = '%s %s(%s)' % (em.cty(f.ret), em.gname(f.name), ', '.join(params) if params else 'void')
        out = [hdr, '{']
        pnames = set((nm if nm else '%' + str(i)) for i, (t, nm, a) in enumerate(f.params))
        for nm, t in self.vtypes.items():
            if nm in pnames: continue
            out.append('  %s %s;' % (em.cty(t), self.lname(nm)))
        out.extend(self.decls)
        out.extend(pro)
        if mangle(f.name) in em.opts.get('entries', ()):
            out.append('  __ll2c_global_ctors(); /* dynamic initialisers of namespace-scope objects (e.g. rational::ZERO) */')
        for b in body:
            out.extend(b)
        out.append('}')
        return hdr + ';', out

    def block_label(self, bname):
        if bname == '%ENTRY':
            # the implicit entry block is numbered after the unnamed params
            n = 0
            for (t, nm, a) in self.f.params:
                if nm is None or re.fullmatch(r'%\d+', nm): n += 1
            return '%' + str(n)
        return bname

    def label_operand(self, tk):
        tk.expect('label')
        return tk.next()[1]

    def phi_copies(self, frm, to):
        """emit copies for phis in block `to` when coming from `frm`"""
        lines = self.f.blocks.get(to)
        if lines is None and to == self.block_label('%ENTRY'):
            lines = self.f.blocks.get('%ENTRY')
        if lines is None:
            # maybe quoted label
            raise SyntaxError("unknown block " + to)
        frm_l = self.block_label(frm)
        copies = []
        for s in lines:
            if ' = phi ' not in s:
                break
            tk = Toks(strip_meta(tokenize(s)), s)
            res = tk.next()[1]; tk.expect('='); tk.expect('phi')
            t = parse_type(tk)
            while True:
                tk.expect('[')
                v = parse_value(tk, t); tk.expect(',')
                pred = tk.next()[1]
                tk.expect(']')
                if pred == frm_l:
                    copies.append((res, t, v))
                if not tk.accept(','): break
        if not copies: return ''
        if len(copies) == 1:
            res, t, v = copies[0]
            return '%s = %s; ' % (self.lname(res), self.val(t, v))
        s = '{ '
        for i, (res, t, v) in enumerate(copies):
            s += '%s pt%d = %s; ' % (self.em.cty(t), i, self.val(t, v))
        for i, (res, t, v) in enumerate(copies):
            s += '%s = pt%d; ' % (self.lname(res), i)
        return s + '} '

    def goto(self, frm, to):
        return '{ %sgoto %s; }' % (self.phi_copies(frm, to), self.blk(to))

    def instr(self, tk, bname):
        em = self.em
        res = None
        if tk.peek(1)[1] == '=' and tk.peek()[0] in ('id', 'qid'):
            res = tk.next()[1]; tk.next()
        op = tk.next()[1]
        L = self.lines
        if op == 'ret':
            t = parse_type(tk)
            if isinstance(t, VoidTy):
                L.append('  return;')
            else:
                v = parse_value(tk, t)
                L.append('  return %s;' % self.val(t, v))
            return
        if op == 'br':
            if tk.peek()[1] == 'label':
                to = self.label_operand(tk)
                L.append('  ' + self.goto(bname, to))
            else:
                t = parse_type(tk); c = parse_value(tk, t); tk.expect(',')
                a = self.label_operand(tk); tk.expect(','); b = self.label_operand(tk)
                L.append('  if (%s) %s else %s' % (self.val(t, c), self.goto(bname, a), self.goto(bname, b)))
            return
        if op == 'switch':
            t = parse_type(tk); v = parse_value(tk, t); tk.expect(',')
            dflt = self.label_operand(tk)
            tk.expect('[')
            L.append('  switch (%s) {' % self.val(t, v))
            while not tk.accept(']'):
                ct = parse_type(tk); cv = parse_value(tk, ct); tk.expect(',')
                to = self.label_operand(tk)
                L.append('    case %s: %s' % (em.const(ct, cv), self.goto(bname, to)))
            L.append('    default: %s' % self.goto(bname, dflt))
            L.append('  }')
            return
        if op == 'unreachable':
            L.append('  __CPROVER_assume(0);')
            return
        if op == 'resume':
            L.append('  ' + self.dummy_ret())
            return
        if op in BIN_OPS:
            flags = set()
            while tk.peek()[1] in ('nuw', 'nsw', 'exact', 'fast', 'nnan', 'ninf', 'nsz', 'arcp', 'contract', 'afn', 'reassoc'):
                flags.add(tk.next()[1])
            t = parse_type(tk); a = parse_value(tk, t); tk.expect(','); b = parse_value(tk, t)
            A = self.val(t, a); B = self.val(t, b)
            if op == 'sub' and isinstance(a, Local) and isinstance(b, Local) and a.name in self.p2i and b.name in self.p2i:
                # difference of two ptrtoint values: keep it a pointer difference so that CBMC can fold it
                self.define(res, t, self.mask(t, '((u8*)%s == (u8*)%s ? 0 : (u8*)%s - (u8*)%s)' % (self.p2i[a.name], self.p2i[b.name], self.p2i[a.name], self.p2i[b.name])))
                return
            if op in ('fadd', 'fsub', 'fmul', 'fdiv'):
                e = '(%s %s %s)' % (A, {'fadd': '+', 'fsub': '-', 'fmul': '*', 'fdiv': '/'}[op], B)
            elif op == 'frem':
                e = 'fmod(%s,%s)' % (A, B)
            elif op in ('add', 'sub', 'mul'):
                o = {'add': '+', 'sub': '-', 'mul': '*'}[op]
                if 'nsw' in flags and t.n in INT_SIGNED and em.opts.get('nsw_signed', True):
                    e = self.mask(t, '(%s %s %s)' % (self.sgn(t, A), o, self.sgn(t, B)))
                else:
                    if t.n < 32:
                        e = self.mask(t, '((u32)%s %s (u32)%s)' % (A, o, B))
                    else:
                        e = self.mask(t, '(%s %s %s)' % (A, o, B))
            elif op in ('udiv', 'urem'):
                e = self.mask(t, '(%s %s %s)' % (A, '/' if op == 'udiv' else '%', B))
            elif op in ('sdiv', 'srem'):
                e = self.mask(t, '(%s %s %s)' % (self.sgn(t, A), '/' if op == 'sdiv' else '%', self.sgn(t, B)))
            elif op == 'shl':
                e = self.mask(t, '((%s)%s << %s)' % ('u64' if t.n <= 64 else 'u128', A, B))
            elif op == 'lshr':
                e = self.mask(t, '(%s >> %s)' % (A, B))
            elif op == 'ashr':
                e = self.mask(t, '(%s >> %s)' % (self.sgn(t, A), B))
            else:
                o = {'and': '&', 'or': '|', 'xor': '^'}[op]
                e = self.mask(t, '(%s %s %s)' % (A, o, B))
            self.define(res, t, e)
            return
        if op == 'fneg':
            while tk.peek()[1] in ('fast', 'nnan', 'ninf', 'nsz', 'arcp', 'contract', 'afn', 'reassoc'): tk.next()
            t = parse_type(tk); a = parse_value(tk, t)
            self.define(res, t, '(-%s)' % self.val(t, a)); return
        if op == 'icmp':
            pred = tk.next()[1]
            t = parse_type(tk); a = parse_value(tk, t); tk.expect(','); b = parse_value(tk, t)
            A = self.val(t, a); B = self.val(t, b)
            if isinstance(t, PtrTy):
                A = '(u8*)' + A; B = '(u8*)' + B
            elif pred[0] == 's':
                A = self.sgn(t, A); B = self.sgn(t, B)
            o = {'eq': '==', 'ne': '!=', 'ugt': '>', 'uge': '>=', 'ult': '<', 'ule': '<=', 'sgt': '>', 'sge': '>=', 'slt': '<', 'sle': '<='}[pred]
            self.define(res, IntTy(1), '(%s %s %s)' % (A, o, B)); return
        if op == 'fcmp':
            while tk.peek()[1] in ('fast', 'nnan', 'ninf', 'nsz', 'arcp', 'contract', 'afn', 'reassoc'): tk.next()
            pred = tk.next()[1]
            t = parse_type(tk); a = parse_value(tk, t); tk.expect(','); b = parse_value(tk, t)
            A = self.val(t, a); B = self.val(t, b)
            ordd = '(%s == %s && %s == %s)' % (A, A, B, B)
            base = {'eq': '==', 'ne': '!=', 'gt': '>', 'ge': '>=', 'lt': '<', 'le': '<='}
            if pred == 'true': e = '1'
            elif pred == 'false': e = '0'
            elif pred == 'ord': e = ordd
            elif pred == 'uno': e = '(!%s)' % ordd
            elif pred[0] == 'o': e = '(%s && %s %s %s)' % (ordd, A, base[pred[1:]], B)
            else: e = '(!%s || %s %s %s)' % (ordd, A, base[pred[1:]], B)
            self.define(res, IntTy(1), e); return
        if op == 'select':
            while tk.peek()[1] in ('fast', 'nnan', 'ninf', 'nsz', 'arcp', 'contract', 'afn', 'reassoc'): tk.next()
            ct = parse_type(tk); c = parse_value(tk, ct); tk.expect(',')
            t = parse_type(tk); a = parse_value(tk, t); tk.expect(',')
            t2 = parse_type(tk); b = parse_value(tk, t2)
            self.define(res, t, '(%s ? %s : %s)' % (self.val(ct, c), self.val(t, a), self.val(t, b))); return
        if op == 'phi':
            t = parse_type(tk)
            self.vtypes[res] = t
            return
        if op == 'alloca':
            tk.accept('inalloca')
            t = parse_type(tk)
            cnt = None
            if tk.accept(','):
                if tk.peek()[1] == 'align':
                    pass
                else:
                    ct = parse_type(tk); cnt = parse_value(tk, ct)
            nm = self.lname(res)
            if cnt is None or (isinstance(cnt, ConstInt) and cnt.v == 1):
                self.decls.append('  %s %s_mem;' % (em.cty(t), nm))
                self.define(res, PtrTy(t), '&%s_mem' % nm)
            elif isinstance(cnt, ConstInt):
                self.decls.append('  %s %s_mem[%d];' % (em.cty(t), nm, cnt.v))
                self.define(res, PtrTy(t), '&%s_mem[0]' % nm)
            else:
                self.define(res, PtrTy(t), '(%s*)LL2C_MALLOC(sizeof(%s) * %s)' % (em.cty(t), em.cty(t), self.val(ct, cnt)))
            return
        if op == 'load':
            tk.accept('atomic'); tk.accept('volatile')
            t = parse_type(tk); tk.expect(',')
            pt = parse_type(tk); p = parse_value(tk, pt)
            self.define(res, t, '(*%s)' % self.val(pt, p)); return
        if op == 'store':
            tk.accept('atomic'); tk.accept('volatile')
            t = parse_type(tk); v = parse_value(tk, t); tk.expect(',')
            pt = parse_type(tk); p = parse_value(tk, pt)
            L.append('  *%s = %s;' % (self.val(pt, p), self.val(t, v))); return
        if op == 'getelementptr':
            tk.accept('inbounds')
            srcty = parse_type(tk); tk.expect(',')
            bt = parse_type(tk); base = parse_value(tk, bt)
            idxs = []
            while tk.accept(','):
                it = parse_type(tk); iv = parse_value(tk, it)
                idxs.append((it, self.val(it, iv), iv))
            rt = em.gep_result_type(srcty, idxs)
            self.define(res, rt, em.gep_expr(srcty, self.val(bt, base), idxs)); return
        if op in CAST_OPS:
            t = parse_type(tk); v = parse_value(tk, t); tk.expect('to'); t2 = parse_type(tk)
            V = self.val(t, v)
            if op == 'trunc':
                e = self.mask(t2, V)
            elif op == 'zext':
                e = '((%s)%s)' % (em.cty(t2), V)
            elif op == 'sext':
                e = self.mask(t2, '(%s)%s' % (INT_SIGNED[64 if t2.n <= 64 else 128], self.sgn(t, V)))
            elif op in ('bitcast', 'addrspacecast'):
                if isinstance(t, PtrTy) and isinstance(t2, PtrTy):
                    e = '((%s)%s)' % (em.cty(t2), V)
                else:
                    self.tmpn += 1
                    tmp = 'bc%d' % self.tmpn
                    self.decls.append('  %s %s;' % (em.cty(t), tmp))
                    L.append('  %s = %s;' % (tmp, V))
                    e = '(*(%s*)&%s)' % (em.cty(t2), tmp)
            elif op in ('ptrtoint', 'inttoptr'):
                if op == 'ptrtoint' and res: self.p2i[res] = V
                e = '((%s)%s)' % (em.cty(t2), V) if op == 'inttoptr' else self.mask(t2, '(u64)' + V)
            elif op in ('uitofp',):
                e = '((%s)%s)' % (em.cty(t2), V)
            elif op == 'sitofp':
                e = '((%s)%s)' % (em.cty(t2), self.sgn(t, V))
            elif op == 'fptoui':
                e = self.mask(t2, '(u64)' + V)
            elif op == 'fptosi':
                e = self.mask(t2, '(i64)' + V)
            else:
                e = '((%s)%s)' % (em.cty(t2), V)
            self.define(res, t2, e); return
        if op == 'extractvalue':
            t = parse_type(tk); v = parse_value(tk, t)
            e = self.val(t, v)
            ct = t
            while tk.accept(','):
                i = int(tk.next()[1])
                rt = em.resolve(ct)
                if isinstance(rt, StructTy):
                    e += '.f%d' % i; ct = rt.elems[i]
                else:
                    e += '.a[%d]' % i; ct = rt.el
            self.define(res, ct, e); return
        if op == 'insertvalue':
            t = parse_type(tk); v = parse_value(tk, t); tk.expect(',')
            et = parse_type(tk); ev = parse_value(tk, et)
            path = ''
            ct = t
            while tk.accept(','):
                i = int(tk.next()[1])
                rt = em.resolve(ct)
                if isinstance(rt, StructTy):
                    path += '.f%d' % i; ct = rt.elems[i]
                else:
                    path += '.a[%d]' % i; ct = rt.el
            self.define(res, t, self.val(t, v))
            L.append('  %s%s = %s;' % (self.lname(res), path, self.val(et, ev))); return
        if op == 'freeze':
            t = parse_type(tk); v = parse_value(tk, t)
            self.define(res, t, self.val(t, v)); return
        if op == 'landingpad':
            t = parse_type(tk)
            # cleanup / catch clauses ignored: selector 0
            self.vtypes[res] = t
            L.append('  %s.f0 = (u8*)__ll2c_exc_ptr; %s.f1 = __ll2c_exc_sel;' % (self.lname(res), self.lname(res)))
            if em.opts.get('lp_clears', False):
                pass
            return
        if op in ('call', 'invoke') or op in ('tail', 'musttail', 'notail'):
            if op in ('tail', 'musttail', 'notail'):
                op = tk.next()[1]
            self.call(tk, res, op, bname); return
        if op == 'fence':
            return
        raise SyntaxError("unsupported instruction %s" % op)

    def call(self, tk, res, op, bname):
        em = self.em; L = self.lines
        while tk.peek()[0] == 'word' and (tk.peek()[1] in CCONV or tk.peek()[1] in ('fast', 'nnan', 'ninf', 'nsz', 'arcp', 'contract', 'afn', 'reassoc')):
            tk.next()
        skip_param_attrs(tk)
        # return type or function type
        save = tk.i
        rt = parse_type(tk)
        fnty = None
        if isinstance(rt, FnTy) or (isinstance(rt, PtrTy) and isinstance(rt.to, FnTy) and tk.peek()[0] not in ('id', 'qid')):
            pass
        if isinstance(rt, FnTy):
            fnty = rt; rt = fnty.ret
        k, v = tk.peek()
        callee_name = None
        if k in ('id', 'qid') and v[0] == '@':
            tk.next(); callee_name = v
            callee = None
        elif k in ('id', 'qid'):
            tk.next(); callee = self.lname(v)
        elif v in ('bitcast', 'inttoptr'):
            cv = parse_value(tk, PtrTy(IntTy(8)))
            callee = em.const(cv.ty, cv)
        else:
            raise SyntaxError("callee? %r" % ((k, v),))
        tk.expect('(')
        args = []
        if not tk.accept(')'):
            while True:
                at = parse_type(tk)
                attrs = skip_param_attrs(tk)
                if isinstance(at, MetaTy):
                    # metadata argument: skip value tokens until , or )
                    depth = 0
                    while True:
                        kk, vv = tk.peek()
                        if depth == 0 and vv in (',', ')'): break
                        if vv == '(': depth += 1
                        if vv == ')': depth -= 1
                        tk.next()
                    args.append((at, None))
                else:
                    av = parse_value(tk, at)
                    args.append((at, av))
                if tk.accept(')'): break
                tk.expect(',')
        call_groups = []
        normal = unwind = None
        while not tk.eof():
            kk, vv = tk.next()
            if kk == 'attr': call_groups.append(vv)
            elif vv == 'to':
                normal = self.label_operand(tk)
            elif vv == 'unwind':
                unwind = self.label_operand(tk)
            elif vv == '[':
                # operand bundle
                while tk.next()[1] != ']': pass
        argexprs = [self.val(t, v) for t, v in args if v is not None]
        # intrinsics
        if callee_name and callee_name.startswith('@llvm.'):
            self.intrinsic(callee_name, res, rt, args, argexprs)
            if op == 'invoke':
                L.append('  ' + self.goto(bname, normal))
            return
        if callee_name:
            if callee_name in self.m.aliases:
                tgt = self.m.aliases[callee_name][1]
                if isinstance(tgt, Global): callee_name = tgt.name
            fexpr = em.gname(callee_name)
            # cast args to declared param types when they differ (bitcast'ed callee types are rare)
        else:
            # indirect call: callee is a local of function pointer type
            fexpr = '(*%s)' % callee
        callexpr = '%s(%s)' % (fexpr, ', '.join(argexprs))
        if callee_name in ('@_Znwm', '@_Znam') and res in getattr(self, 'alloc_ty', {}):
            ct = em.cty(self.alloc_ty[res])
            self.define(res, rt, '(u8*)LL2C_MALLOC(sizeof(%s) * (%s / sizeof(%s)))' % (ct, argexprs[0], ct))
            if op == 'invoke': L.append('  ' + self.goto(bname, normal))
            return
        if callee_name in ('@_Znwm', '@_Znam'):
            sys.stderr.write('ll2c: warning: untyped allocation (byte array) in %s: %s\n' % (self.f.name[:80], argexprs[0][:40]))
        special = self.special_call(callee_name, res, rt, args, argexprs, op, bname, normal, unwind)
        if special:
            return
        if isinstance(rt, VoidTy):
            L.append('  %s;' % callexpr)
        else:
            self.define(res, rt, callexpr)
        if self.may_throw(callee_name, call_groups):
            if op == 'invoke':
                L.append('  if (__ll2c_exc_active) %s else %s' % (self.goto(bname, unwind), self.goto(bname, normal)))
            else:
                L.append('  if (__ll2c_exc_active) %s' % self.dummy_ret())
        elif op == 'invoke':
            L.append('  ' + self.goto(bname, normal))

    def special_call(self, name, res, rt, args, A, op, bname, normal, unwind):
        L = self.lines
        if name is None: return False
        n = mangle(name)
        if n == '__assert_fail':
            L.append('  __CPROVER_assert(0, "REPO-ASSERT");')
            L.append('  __CPROVER_assume(0);')
            return True
        if n == '__CPROVER_assert':
            msg = 'harness assertion'
            av = args[1][1]
            if isinstance(av, ConstExpr) and av.op == 'getelementptr' and isinstance(av.args[0][1], Global):
                g = self.m.globals.get(av.args[0][1].name)
                if g and isinstance(g[1], ConstStr):
                    msg = g[1].data.rstrip(b'\x00').decode('latin1').replace('\\', '/').replace('"', "'")
            L.append('  __CPROVER_assert(%s, "%s");' % (A[0], msg))
            return True
        if n in ('sqrt', 'ceil', 'floor') and res:
            self.define(res, rt, '__ll2c_%s(%s)' % (n, A[0]))
            if op == 'invoke': L.append('  ' + self.goto(bname, normal))
            return True
        if n == 'verif_param':
            self.define(res, rt, self.mask(rt, '__verif_params[%s]' % A[0]))
            if op == 'invoke': L.append('  ' + self.goto(bname, normal))
            return True
        if n == '__verif_witness':
            L.append('#ifndef NO_WITNESS')
            L.append('  __CPROVER_assert(0, "WITNESS");')
            L.append('#endif')
            if op == 'invoke': L.append('  ' + self.goto(bname, normal))
            return True
        if n.startswith('nondet_') and res:
            self.define(res, rt, '%s()' % self.em.gname(name))
            L.append('  LL2C_INPUT(%s);' % self.lname(res))
            if op == 'invoke': L.append('  ' + self.goto(bname, normal))
            return True
        if n == '__CPROVER_assume':
            L.append('  __CPROVER_assume(%s);' % A[0])
            return True
        if n == '__cxa_throw':
            L.append('  __ll2c_exc_active = 1; __ll2c_exc_ptr = (void*)%s; __ll2c_exc_type = (void*)%s;' % (A[0], A[1]))
            if op == 'invoke':
                L.append('  ' + self.goto(bname, unwind))
            else:
                L.append('  ' + self.dummy_ret())
            return True
        if n == '__cxa_rethrow' or re.match(r'_ZSt\d+__throw_', n):
            L.append('  __ll2c_exc_active = 1;')
            if op == 'invoke':
                L.append('  ' + self.goto(bname, unwind))
            else:
                L.append('  ' + self.dummy_ret())
            return True
        if n == '__cxa_begin_catch':
            L.append('  __ll2c_exc_active = 0;')
            if res: self.define(res, rt, A[0])
            if op == 'invoke': L.append('  ' + self.goto(bname, normal))
            return True
        if n == '__cxa_end_catch':
            if op == 'invoke': L.append('  ' + self.goto(bname, normal))
            return True
        if n == '__cxa_pure_virtual':
            L.append('  __CPROVER_assert(0, "PURE-VIRTUAL-CALL"); __CPROVER_assume(0);')
            return True
        if n == '__clang_call_terminate' or n == '_ZSt9terminatev':
            L.append('  __CPROVER_assert(0, "STD-TERMINATE");')
            L.append('  __CPROVER_assume(0);')
            return True
        return False

    def elem_type_for_copy(self, d, s_, nbytes=None):
        """element type to use for a typed copy, or None for a byte copy"""
        em = self.em
        def org(v):
            if isinstance(v, Local): return self.i8_origin.get(v.name)
            if isinstance(v, ConstExpr) and v.op == 'bitcast':
                t = v.args[0][0]
                if isinstance(t, PtrTy) and not (isinstance(t.to, IntTy) and t.to.n == 8) and em.size_align(t.to)[0]: return t.to
            return None
        def strip(t):
            # arrays / single-field wrappers -> element type
            while True:
                r = em.resolve(t)
                if isinstance(r, ArrTy): t = r.el
                else: return t
        td = org(d); ts = org(s_) if s_ is not None else None
        cands = [strip(t) for t in (td, ts) if t is not None]   # destination first: the written cells keep their own types
        if not cands: return None
        def bad(t):
            r = em.resolve(t)
            return (isinstance(r, IntTy) and r.n == 8) or em.is_bytestruct(t)
        cands = [t for t in cands if not bad(t)]
        if not cands: return None
        if nbytes is not None:
            div = [t for t in cands if nbytes % em.size_align(t)[0] == 0]
            if div: cands = div
            else:
                # no candidate element tiles the region (e.g. a 16-byte rational copied into the first half of an
                # inf_rational): use the leading scalar leaves of the destination type if they tile it exactly
                for t in cands:
                    lv = em.leaves(t)
                    if not lv: continue
                    pre = [(o, c) for o, c in lv if o < nbytes]
                    szs = {'u8': 1, 'u16': 2, 'u32': 4, 'u64': 8, 'u8*': 8, 'double': 8, 'float': 4}
                    end = 0; ok = True
                    for o, c in pre:
                        if o != end or c not in szs: ok = False; break
                        end = o + szs[c]
                    if ok and end == nbytes:
                        self.prefix_leaves = pre
                        return t
                return None
        # never copy through a pointer element type unless every known side is a pointer: LLVM addresses payloads through
        # unrelated struct types (e.g. (_Rb_tree_node_base*)p + 1), and moving integers through pointer-typed temporaries makes
        # cbmc mis-simplify later arithmetic on them
        import os as _os
        if _os.environ.get('LL2C_COPYSEL') == 'smallest':
            cands.sort(key=lambda t: em.size_align(t)[0]); return cands[0]
        nonptr = [t for t in cands if not isinstance(em.resolve(t), PtrTy)]
        if nonptr: return nonptr[0]
        return cands[0]

    def intrinsic(self, name, res, rt, args, A):
        L = self.lines
        em = self.em
        base = name[len('@llvm.'):]
        if base.startswith('lifetime.') or base.startswith('dbg.') or base.startswith('experimental.noalias') or base.startswith('invariant.') or base == 'assume' or base.startswith('prefetch') or base.startswith('donothing'):
            return
        if base.startswith('memcpy') or base.startswith('memmove'):
            fn = 'memcpy' if base.startswith('memcpy') else 'memmove'
            self.prefix_leaves = None
            nb = args[2][1].v if isinstance(args[2][1], ConstInt) else None
            et = self.elem_type_for_copy(args[0][1], args[1][1], nb)
            if et is not None and self.prefix_leaves:
                body = ' '.join('*(%s*)(d_ + %d) = *(const %s*)(s_ + %d);' % (c, o, c, o) for o, c in self.prefix_leaves)
                L.append('  { u8 *d_ = (u8*)(%s); const u8 *s_ = (const u8*)(%s); %s }' % (A[0], A[1], body))
                return
            if et is not None:
                ct = em.cty(et)
                lv = em.leaves(et)
                import os as _os
                if lv and len(lv) > 1 and _os.environ.get('LL2C_LEAF', '1') == '1':
                    # element-wise, leaf by leaf: every scalar cell is moved with its own scalar type (no struct-typed temporaries
                    # read out of differently typed objects, no integers travelling through pointer types)
                    sz = em.size_align(et)[0]
                    body = ' '.join('*(%s*)(dd_ + %d) = *(const %s*)(ss_ + %d);' % (c, o, c, o) for o, c in lv)
                    fwd = 'for (u64 i_ = 0; i_ < n_; i_++) { u8 *dd_ = d_ + i_ * %d; const u8 *ss_ = s_ + i_ * %d; %s }' % (sz, sz, body)
                    bwd = 'for (u64 i_ = n_; i_ > 0; i_--) { u8 *dd_ = d_ + (i_ - 1) * %d; const u8 *ss_ = s_ + (i_ - 1) * %d; %s }' % (sz, sz, body)
                    L.append('  { u8 *d_ = (u8*)(%s); const u8 *s_ = (const u8*)(%s); u64 n_ = (u64)(%s) / %d;' % (A[0], A[1], A[2], sz))
                    if fn == 'memcpy':
                        L.append('    if ((u64)(%s) %% %d != 0) LL2C_BYTES_FWD(d_, s_, %s); else %s }' % (A[2], sz, A[2], fwd))
                    else:
                        L.append('    if ((u64)(%s) %% %d != 0) { if (!LL2C_SAME_OBJECT(d_, s_) || d_ <= s_) LL2C_BYTES_FWD(d_, s_, %s); else LL2C_BYTES_BWD(d_, s_, %s); }' % (A[2], sz, A[2], A[2]))
                        L.append('    else if (!LL2C_SAME_OBJECT(d_, s_) || d_ <= s_) %s else %s }' % (fwd, bwd))
                    return
                L.append('  LL2C_TYPED_%s(%s, %s, %s, %s);' % (fn.upper(), ct, A[0], A[1], A[2])); return
            L.append('  LL2C_TYPED_%s(u8, %s, %s, %s);' % (fn.upper(), A[0], A[1], A[2])); return
        if base.startswith('memset'):
            self.prefix_leaves = None
            nb = args[2][1].v if isinstance(args[2][1], ConstInt) else None
            et = self.elem_type_for_copy(args[0][1], None, nb)
            if et is not None and self.prefix_leaves:
                et = None
            if et is not None and isinstance(args[1][1], ConstInt) and args[1][1].v == 0:
                ct = em.cty(et)
                L.append('  LL2C_TYPED_MEMZERO(%s, %s, %s);' % (ct, A[0], A[2])); return
            L.append('  LL2C_BYTE_MEMSET(%s, %s, %s);' % (A[0], A[1], A[2])); return
        if base.startswith('expect'):
            self.define(res, rt, A[0]); return
        t = rt
        if base.startswith('abs.'):
            self.define(res, rt, self.mask(t, '(%s < 0 ? -%s : %s)' % (self.sgn(t, A[0]), self.sgn(t, A[0]), self.sgn(t, A[0])))); return
        if base.startswith('umax.'): self.define(res, rt, '(%s > %s ? %s : %s)' % (A[0], A[1], A[0], A[1])); return
        if base.startswith('umin.'): self.define(res, rt, '(%s < %s ? %s : %s)' % (A[0], A[1], A[0], A[1])); return
        if base.startswith('smax.'): self.define(res, rt, '(%s > %s ? %s : %s)' % (self.sgn(t, A[0]), self.sgn(t, A[1]), A[0], A[1])); return
        if base.startswith('smin.'): self.define(res, rt, '(%s < %s ? %s : %s)' % (self.sgn(t, A[0]), self.sgn(t, A[1]), A[0], A[1])); return
        if base.startswith('cttz.'):
            self.define(res, rt, '__ll2c_cttz%d(%s)' % (t.n, A[0])); return
        if base.startswith('ctlz.'):
            self.define(res, rt, '__ll2c_ctlz%d(%s)' % (t.n, A[0])); return
        if base.startswith('ctpop.'):
            self.define(res, rt, '__ll2c_ctpop%d(%s)' % (t.n, A[0])); return
        if base.startswith('bswap.'):
            self.define(res, rt, '__builtin_bswap%d(%s)' % (t.n, A[0])); return
        m = re.match(r'(u|s)(add|sub|mul)\.with\.overflow\.i(\d+)', base)
        if m:
            self.vtypes[res] = rt
            sg, o, n = m.group(1), m.group(2), int(m.group(3))
            L.append('  __ll2c_%s%s_ov%d(%s, %s, &%s.f0, &%s.f1);' % (sg, o, n, A[0], A[1], self.lname(res), self.lname(res)))
            return
        if base.startswith('fmuladd.') or base.startswith('fma.'):
            self.define(res, rt, '(%s * %s + %s)' % (A[0], A[1], A[2])); return
        for fn in ('ceil', 'floor', 'sqrt', 'fabs', 'trunc', 'round', 'pow', 'exp', 'log', 'log10', 'sin', 'cos', 'exp2', 'log2', 'rint', 'nearbyint', 'copysign', 'maxnum', 'minnum'):
            if base.startswith(fn + '.'):
                cf = {'maxnum': 'fmax', 'minnum': 'fmin', 'ceil': '__ll2c_ceil', 'sqrt': '__ll2c_sqrt', 'floor': '__ll2c_floor'}.get(fn, fn)
                if base.endswith('f32') and not cf.startswith('__ll2c_'): cf += 'f'
                self.define(res, rt, '%s(%s)' % (cf, ', '.join(A))); return
        if base.startswith('eh.typeid.for'):
            self.define(res, rt, '__ll2c_typeid_for((void*)%s)' % A[0]); return
        if base.startswith('trap'):
            L.append('  __CPROVER_assert(0, "LLVM-TRAP"); __CPROVER_assume(0);'); return
        if base.startswith('stacksave'):
            self.define(res, rt, '((u8*)0)'); return
        if base.startswith('stackrestore'):
            return
        if base.startswith('is.constant'):
            self.define(res, rt, '0'); return
        if base.startswith('objectsize'):
            self.define(res, rt, '((u64)-1)'); return
        if base.startswith('fshl.') or base.startswith('fshr.'):
            n = t.n
            if base.startswith('fshl.'):
                self.define(res, rt, self.mask(t, '((%s %% %d) == 0 ? %s : ((%s << (%s %% %d)) | (%s >> (%d - (%s %% %d)))))' % (A[2], n, A[0], A[0], A[2], n, A[1], n, A[2], n)))
            else:
                self.define(res, rt, self.mask(t, '((%s %% %d) == 0 ? %s : ((%s << (%d - (%s %% %d))) | (%s >> (%s %% %d))))' % (A[2], n, A[1], A[0], n, A[2], n, A[1], A[2], n)))
            return
        raise SyntaxError("unsupported intrinsic " + name)


PRELUDE = r'''
typedef unsigned char u8; typedef unsigned short u16; typedef unsigned int u32; typedef unsigned long u64; typedef unsigned __int128 u128;
typedef signed char i8; typedef short i16; typedef int i32; typedef long i64; typedef __int128 i128;
void *malloc(unsigned long); void free(void*); void *memcpy(void*, const void*, unsigned long); void *memmove(void*, const void*, unsigned long); void *memset(void*, int, unsigned long);
double ceil(double); double floor(double); double sqrt(double); double fabs(double); double pow(double,double); double fmod(double,double); double trunc(double); double round(double);
#ifndef __CPROVER__
#include <assert.h>
#include <stdlib.h>
#define __CPROVER_assume(c) do { if(!(c)) exit(77); } while(0)
#define __CPROVER_assert(c, m) assert((c) && m)
#define LL2C_SAME_OBJECT(a, b) 1
#define LL2C_MALLOC(n) malloc(n)
#define LL2C_FREE(p) free(p)
#else
#define LL2C_SAME_OBJECT(a, b) __CPROVER_same_object((a), (b))
/* allocation never fails and free is a no-op: allocation failure, use-after-free and leaks are outside every claim;
   cbmc's library malloc/free add nondeterministic bookkeeping that makes later guards symbolic */
#define LL2C_MALLOC(n) __CPROVER_allocate((n), 0)
#define LL2C_FREE(p) ((void)0)
#endif
#ifndef VERIF_PARAMS
#define VERIF_PARAMS 0
#endif
static const int __verif_params[] = { VERIF_PARAMS, 0 };
extern i64 __ll2c_last_in; extern u64 __ll2c_in_count;
#define LL2C_INPUT(v) do { __ll2c_last_in = (i64)(v); __ll2c_in_count++; } while (0)
/* typed element-wise copies: keep heap cells typed (no byte_extract of pointers) so that cbmc can constant-propagate through std::vector growth */
#define LL2C_BYTES_FWD(D, S, N) do { u8 *bd_ = (u8*)(D); const u8 *bs_ = (const u8*)(S); u64 bn_ = (u64)(N); for (u64 j_ = 0; j_ < bn_; j_++) bd_[j_] = bs_[j_]; } while (0)
#define LL2C_BYTES_BWD(D, S, N) do { u8 *bd_ = (u8*)(D); const u8 *bs_ = (const u8*)(S); u64 bn_ = (u64)(N); for (u64 j_ = bn_; j_ > 0; j_--) bd_[j_ - 1] = bs_[j_ - 1]; } while (0)
#define LL2C_TYPED_MEMCPY(T, D, S, N) do { T *d_ = (T*)(D); const T *s_ = (const T*)(S); u64 n_ = (u64)(N) / sizeof(T); \
  if ((u64)(N) % sizeof(T) != 0) LL2C_BYTES_FWD(D, S, N); else for (u64 i_ = 0; i_ < n_; i_++) d_[i_] = s_[i_]; } while (0)
#define LL2C_TYPED_MEMMOVE(T, D, S, N) do { T *d_ = (T*)(D); const T *s_ = (const T*)(S); u64 n_ = (u64)(N) / sizeof(T); \
  if (!LL2C_SAME_OBJECT((u8*)d_, (u8*)s_) || (u8*)d_ <= (u8*)s_) { if ((u64)(N) % sizeof(T) != 0) LL2C_BYTES_FWD(D, S, N); else for (u64 i_ = 0; i_ < n_; i_++) d_[i_] = s_[i_]; } \
  else { if ((u64)(N) % sizeof(T) != 0) LL2C_BYTES_BWD(D, S, N); else for (u64 i_ = n_; i_ > 0; i_--) d_[i_ - 1] = s_[i_ - 1]; } } while (0)
#define LL2C_BYTE_MEMSET(D, V, N) do { u8 *d_ = (u8*)(D); u8 v_ = (u8)(V); u64 n_ = (u64)(N); for (u64 i_ = 0; i_ < n_; i_++) d_[i_] = v_; } while (0)
#define LL2C_TYPED_MEMZERO(T, D, N) do { T *d_ = (T*)(D); u64 n_ = (u64)(N) / sizeof(T); if ((u64)(N) % sizeof(T) != 0) LL2C_BYTE_MEMSET(D, 0, N); else for (u64 i_ = 0; i_ < n_; i_++) d_[i_] = (T){0}; } while (0)
int memcmp(const void*, const void*, unsigned long); int bcmp(const void*, const void*, unsigned long); unsigned long strlen(const char*); void *memchr(const void*, int, unsigned long);
static u64 __ll2c_cttz64(u64); static u32 __ll2c_cttz32(u32); static u16 __ll2c_cttz16(u16); static u8 __ll2c_cttz8(u8); static u64 __ll2c_ctlz64(u64); static u32 __ll2c_ctlz32(u32);
static void __ll2c_umul_ov64(u64, u64, u64*, _Bool*); static void __ll2c_uadd_ov64(u64, u64, u64*, _Bool*);
void __cxa_pure_virtual(void); void __ll2c_global_ctors(void);
static double __ll2c_ceil(double); static double __ll2c_floor(double); static double __ll2c_sqrt(double);
extern int __ll2c_exc_active; extern void *__ll2c_exc_ptr; extern void *__ll2c_exc_type; extern int __ll2c_exc_sel;
'''


def emit_module(m, opts):
    em = Emitter(m, opts)
    protos = []
    bodies = []
    # functions
    for name, f in m.funcs.items():
        if name.startswith('@llvm.'): continue
        if f.is_decl:
            ps = [em.cty(t) for (t, nm, a) in f.params]
            if f.vararg: ps.append('...')
            n = mangle(name)
            if n in ('verif_param', '__verif_witness', '__assert_fail', '__cxa_throw', '__clang_call_terminate', '__cxa_rethrow', '__cxa_begin_catch', '__cxa_end_catch', '__cxa_pure_virtual', '_ZSt9terminatev') or re.match(r'_ZSt\d+__throw_', n) or n in PRELUDE_FUNCS or n.startswith('__CPROVER_') or n == '__gxx_personality_v0': continue
            if n in ZERO_STUBS:
                ps2 = ['%s a%d' % (em.cty(t), i) for i, (t, nm, a) in enumerate(f.params)]
                zb = 'return;' if isinstance(f.ret, VoidTy) else ('%s r = %s; return r;' % (em.cty(f.ret), em.zero(f.ret, static=True)))
                bodies.append(['%s %s(%s) { %s }' % (em.cty(f.ret), em.gname(name), ', '.join(ps2) if ps2 else 'void', zb)])
            elif n in RT_PROVIDES:
                em.needs.append(n)
            elif n.startswith('nondet_'):
                pass
            else:
                ps2 = ['%s a%d' % (em.cty(t), i) for i, (t, nm, a) in enumerate(f.params)]
                if f.vararg: ps2.append('...')
                zb = '' if isinstance(f.ret, VoidTy) else ('%s r = %s; return r;' % (em.cty(f.ret), em.zero(f.ret, static=True)))
                bodies.append(['%s %s(%s) { __CPROVER_assert(0, "UNMODELLED-CALL %s"); __CPROVER_assume(0); %s }' % (em.cty(f.ret), em.gname(name), ', '.join(ps2) if ps2 else 'void', n, zb)])
            protos.append('%s %s(%s);' % (em.cty(f.ret), em.gname(name), ', '.join(ps) if ps else 'void'))
        else:
            fe = FnEmitter(em, f)
            proto, body = fe.emit()
            protos.append(proto)
            bodies.append(body)
    # globals
    gdecl = []
    gdef = []
    for name, (t, init, is_const) in m.globals.items():
        if name in ('@llvm.global_ctors', '@llvm.global_dtors', '@llvm.used', '@llvm.compiler.used'):
            if name == '@llvm.global_ctors' and isinstance(init, ConstAgg):
                for et, ev in init.elems:
                    fnv = ev.elems[1][1]
                    if isinstance(fnv, Global): m.ctors.append(fnv.name)
            continue
        ct = em.cty(t)
        gdecl.append('extern %s %s;' % (ct, em.gname(name)))
        if init is not None:
            gdef.append('%s %s = %s;' % (ct, em.gname(name), em.const(t, init, static=True)))
        else:
            gdef.append('%s %s; /* external, zero-initialised model */' % (ct, em.gname(name)))
    structs = em.emit_struct_defs()
    out = [PRELUDE]
    # forward declarations
    for name in m.types:
        out.append('struct %s;' % em.sname(name))
    for key, (nm, t) in list(em.anon.items()):
        out.append('struct %s;' % nm)
    # function pointer typedefs (may reference structs by pointer, or by value for struct returns -> after struct defs)
    out.extend(structs)
    k = 0
    fpl = []
    while True:
        keys = list(em.fnptr_typedefs)
        if k >= len(keys): break
        nm, ft = em.fnptr_typedefs[keys[k]]
        ps = [em.cty(p) for p in ft.params]
        if ft.vararg and ps: ps.append('...')
        fpl.append((nm, 'typedef %s (*%s)(%s);' % (em.cty(ft.ret), nm, ', '.join(ps) if ps else 'void')))
        k += 1
    return em, out, fpl, gdecl, protos, gdef, bodies


RT_PROVIDES = set()


def load_rt_provides():
    import os
    rt = os.path.join(os.path.dirname(os.path.abspath(__file__)), 'rt', 'll2c_rt.h')
    RT_PROVIDES.update(re.findall(r'#ifdef NEED_(\w+)', open(rt).read()))


def main():
    import argparse
    load_rt_provides()
    ap = argparse.ArgumentParser()
    ap.add_argument('input')
    ap.add_argument('-o', '--output', required=True)
    ap.add_argument('--no-exceptions', action='store_true')
    ap.add_argument('--narrow', type=int, default=0)
    ap.add_argument('--entries', default='')
    args = ap.parse_args()
    if args.narrow:
        NARROW.update({64: args.narrow, 32: args.narrow, 128: 2 * args.narrow})
    text = open(args.input).read()
    m = parse_module(text)
    opts = {'exceptions': not args.no_exceptions, 'entries': set(x for x in args.entries.split(',') if x)}
    em, out, fpl, gdecl, protos, gdef, bodies = emit_module(m, opts)
    # function-pointer typedefs can be needed inside struct definitions: emit them as forward typedefs using
    # pointer-only parameter types first.  Simplest ordering: forward struct decls, fn typedefs, struct defs.
    res = []
    res.append(out[0])
    for name in m.types:
        res.append('struct %s;' % em.sname(name))
    for key, (nm, t) in em.anon.items():
        res.append('struct %s;' % nm)
    for nm, l in fpl:
        res.append(l)
    res.extend([l for l in out[1:] if '{' in l])
    res.extend(gdecl)
    res.extend(protos)
    res.extend(gdef)
    res.append('void __ll2c_global_ctors(void) {')
    for c in m.ctors:
        res.append('  %s();' % em.gname(c))
    res.append('}')
    for b in bodies:
        res.extend(b)
    for n in em.needs:
        res.append('#define NEED_%s 1' % n)
    for tn, macro in (('%"class.std::__cxx11::basic_string"', 'LL2C_STRING'), ('%"struct.std::_Rb_tree_node_base"', 'LL2C_RBNODE'), ('%"struct.std::__detail::_Prime_rehash_policy"', 'LL2C_REHASH')):
        if tn in m.types:
            res.append('#define %s struct %s' % (macro, em.sname(tn)))
    res.append('#include "ll2c_rt.h"')
    open(args.output, 'w').write('\n'.join(res) + '\n')


if __name__ == '__main__':
    main()
