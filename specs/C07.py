from specs.common import *
import itertools, random, os

INFO = {
    'what': 'smt::sat_core clause database, propagation, conflict analysis, backjumping, next(), check(), simplify_db() on concrete clause sets and call histories, compared after every call with the reference semantics over ALL total assignments (symbolic)',
    'units': SAT_UNITS,
    'functions': ['sat_core::new_clause', 'assume', 'pop', 'pop_one', 'propagate', 'next', 'check', 'simplify_db', 'analyze', 'record', 'enqueue', 'clause::propagate', 'clause::simplify', 'clause::remove', 'clause::get_reason'],
    'assumptions': COMMON_ASSUMPTIONS + ['clause sets and call histories are concrete per query (curated conflict scenarios + a seeded sample in the quick tier, systematic families in the thorough tier); the total assignment quantified over is symbolic',
                                         'the blocking clause that next() records counts as an added clause',
                                         'calls whose documented precondition does not hold in the reached state are skipped'],
    'outside': 'theory literals (they enter through C09-C12 and C14), clause sets / histories not enumerated, more than 9 variables',
}

OPS = {'assume': 0, 'pop': 1, 'propagate': 2, 'next': 3, 'check1': 4, 'check2': 5, 'simplify': 6, 'clause1': 7, 'clause2': 8, 'check3': 9}


def scen(V, clauses, hist):
    p = [V, len(clauses)]
    for c in clauses:
        p.append(len(c))
        for (v, s) in c: p += [v, s]
    p.append(len(hist))
    for h in hist:
        op = OPS[h[0]]
        l1 = h[1] if len(h) > 1 else (0, 0)
        l2 = h[2] if len(h) > 2 else (0, 0)
        l3 = h[3] if len(h) > 3 else (0, 0)
        p += [op, l1[0], l1[1], l2[0] + 16 * l3[0], l2[1] + 2 * l3[1]]
    return p


def L(x):  # 3 -> (3,1)   -3 -> (3,0)
    return (abs(x), 1 if x > 0 else 0)


def C(*xs):
    return [L(x) for x in xs]


def fmt(V, clauses, hist):
    cs = ' & '.join('(' + ' | '.join(('' if s else '!') + 'b%d' % v for v, s in c) + ')' for c in clauses)
    hs = '; '.join(h[0] + ('(' + ', '.join(('' if s else '!') + 'b%d' % v for v, s in h[1:]) + ')' if len(h) > 1 else '()') for h in hist)
    return '%s  ::  %s' % (cs, hs)


CURATED = [
    # unit propagation chain and a conflict that learns a unit clause
    (3, [C(-1, 2), C(-1, -2, 3), C(-3, -2)], [('assume', L(1)), ('propagate',), ('assume', L(2))]),
    # conflict at level 2 with backjump to level 1 (first UIP) then continue
    (4, [C(-1, -2, 3), C(-3, 4), C(-3, -4)], [('assume', L(1)), ('assume', L(2)), ('assume', L(4)), ('pop',)]),
    (4, [C(-2, 3), C(-2, 4), C(-3, -4, -1)], [('assume', L(1)), ('assume', L(2)), ('pop',), ('assume', L(-2))]),
    # next() enumerating solutions of (b1 | b2)
    (2, [C(1, 2)], [('assume', L(1)), ('assume', L(2)), ('next',), ('next',), ('next',)]),
    (2, [C(1, 2), C(-1, -2)], [('assume', L(1)), ('next',), ('next',)]),
    # check with one and two assumptions, satisfiable and not
    (3, [C(-1, 2), C(-2, 3)], [('check1', L(1)), ('check2', L(1), L(-3)), ('assume', L(1)), ('check1', L(-3))]),
    (3, [C(1, 2, 3), C(-1, -2)], [('assume', L(-3)), ('check2', L(1), L(2)), ('check1', L(-1)), ('pop',)]),
    # unsatisfiable at root
    (2, [C(1, 2), C(-1, 2), C(1, -2), C(-1, -2)], [('propagate',), ('assume', L(1))]),
    (1, [C(1), C(-1)], []),
    # root-level clause addition after decisions were popped, simplify_db
    (3, [C(1, 2), C(-1, 3)], [('assume', L(1)), ('pop',), ('clause1', L(-2)), ('simplify',), ('assume', L(-3))]),
    (3, [C(1, 2, 3)], [('clause1', L(-1)), ('simplify',), ('clause2', L(-2), L(-3)), ('assume', L(2))]),
    # duplicate / tautological / already satisfied clauses
    (2, [C(1, 1, 2), C(1, -1), C(2)], [('assume', L(-1)), ('pop',)]),
    # a learnt clause (!c | !a | !b) that is NOT a unit-propagation consequence of the added clauses: after undoing only the higher of
    # its two earlier levels and deciding c again it must still force !b (and symmetric)
    (6, [C(-1, -3, 4), C(-2, -3, 5), C(-4, -5, 6), C(-4, -5, -6)], [('assume', L(1)), ('assume', L(2)), ('assume', L(3)), ('pop',), ('assume', L(3)), ('assume', L(2))]),
    (6, [C(-1, -3, 4), C(-2, -3, 5), C(-4, -5, 6), C(-4, -5, -6)], [('assume', L(2)), ('assume', L(1)), ('assume', L(3)), ('pop',), ('assume', L(3)), ('assume', L(1))]),
    (6, [C(-3, -1, 4), C(-3, -2, 5), C(-5, -4, 6), C(-6, -4, -5)], [('assume', L(1)), ('assume', L(2)), ('assume', L(3)), ('pop',), ('pop',), ('assume', L(2)), ('assume', L(3))]),
    (6, [C(-1, -3, 4), C(-2, -3, 5), C(-4, -5, 6), C(-4, -5, -6)], [('assume', L(1)), ('assume', L(2)), ('check1', L(3)), ('pop',), ('assume', L(3))]),
    # check() with three assumptions where the last one conflicts with the first only (backjump over the unrelated middle one), from root and from level 1
    (4, [C(-1, -3, 4), C(-1, -3, -4)], [('check3', L(1), L(2), L(3)), ('check3', L(2), L(1), L(3))]),
    (5, [C(-1, -3, 4), C(-1, -3, -4)], [('assume', L(5)), ('check3', L(1), L(2), L(3)), ('check2', L(1), L(3)), ('pop',), ('check3', L(1), L(2), L(3))]),
    (4, [C(-1, 4), C(-4, -3)], [('check3', L(1), L(2), L(3)), ('check3', L(2), L(1), L(3)), ('check3', L(3), L(2), L(-1))]),
    (5, [C(-1, -2, 4), C(-4, -3), C(-5, 3)], [('assume', L(5)), ('check3', L(1), L(2), L(-3)), ('check3', L(1), L(-2), L(4))]),
    # two conflicts in a row
    (4, [C(-1, 2), C(-1, 3), C(-2, -3, 4), C(-4, -1)], [('assume', L(1)), ('assume', L(-1)), ('assume', L(4))]),
    (4, [C(1, 2), C(1, -2, 3), C(-3, 4), C(-3, -4), C(-1, 2)], [('assume', L(-1)), ('assume', L(3)), ('next',)]),
]


def sample(rng, n, V, maxc, maxh):
    out = []
    for _ in range(n):
        nc = rng.randint(2, maxc)
        clauses = []
        for _ in range(nc):
            k = rng.choice([1, 2, 2, 2, 3, 3])
            vs = [rng.randint(1, V) for _ in range(k)]
            clauses.append([(v, rng.randint(0, 1)) for v in vs])
        hist = []
        for _ in range(rng.randint(2, maxh)):
            o = rng.choice(['assume', 'assume', 'assume', 'assume', 'pop', 'next', 'check1', 'check2', 'check3', 'propagate', 'clause1', 'clause2', 'simplify'])
            hist.append((o, (rng.randint(1, V), rng.randint(0, 1)), (rng.randint(1, V), rng.randint(0, 1)), (rng.randint(1, V), rng.randint(0, 1))))
        out.append((V, clauses, hist))
    return out


def family_backjump():
    """two ternary clauses  (!p | !r | x), (!q | !r | !x)  in every literal order, decisions p, q, r in two orders: the conflict at
    level 3 involves two earlier levels, so the backjump level is a maximum over literals visited in clause order"""
    out = []
    c1 = [L(-1), L(-3), L(4)]; c2 = [L(-2), L(-3), L(-4)]
    for o1 in itertools.permutations(c1):
        for o2 in itertools.permutations(c2):
            for order in ((1, 2, 3), (2, 1, 3)):
                out.append((4, [list(o1), list(o2)], [('assume', L(v)) for v in order] + [('assume', L(4))]))
    # the learnt clause (!r | !p | !q) must keep propagating after the higher of its two earlier levels is undone and the
    # literals come back in another order
    for o1 in list(itertools.permutations(c1))[::2]:
        for order in ((1, 2, 3), (2, 1, 3)):
            out.append((4, [list(o1), c2], [('assume', L(v)) for v in order] + [('pop',), ('assume', L(3)), ('assume', L(order[1]))]))
            out.append((4, [list(o1), c2], [('assume', L(v)) for v in order] + [('pop',), ('pop',), ('assume', L(3)), ('assume', L(order[1])), ('assume', L(order[0]))]))
    return out


def family_simplify():
    """simplify_db on a clause of 4 or 5 literals one of which (each position in turn) became false at root level: the stored clause must keep
    exactly the other literals, then two of them are decided false"""
    out = []
    for n in (4, 5):
        for pos in range(1, n + 1):
            rest = [v for v in range(1, n + 1) if v != pos]
            out.append((n, [C(*range(1, n + 1))], [('clause1', L(-pos)), ('simplify',), ('check2', L(-rest[0]), L(-rest[1])), ('assume', L(-rest[0])), ('assume', L(-rest[1]))]))
    # two false literals, and a satisfied clause next to it
    out.append((5, [C(1, 2, 3, 4, 5), C(-1, 2, 3)], [('clause1', L(-3)), ('clause1', L(-4)), ('simplify',), ('assume', L(-1)), ('assume', L(-2))]))
    out.append((5, [C(1, 2, 3, 4, 5), C(3, 4)], [('clause1', L(-2)), ('clause1', L(4)), ('simplify',), ('assume', L(-1)), ('assume', L(-3))]))
    return out


def family_small():
    """systematic: every set of 2 clauses (size <= 2) over 2 variables x every history of length 2 over {assume(+-b1), assume(+-b2), pop, next, check(+-b1)}"""
    lits = [(1, 1), (1, 0), (2, 1), (2, 0)]
    cls = [[l] for l in lits] + [[x, y] for x, y in itertools.combinations(lits, 2)]
    ops = [('assume', l) for l in lits] + [('pop',), ('next',)] + [('check1', l) for l in lits[:2]]
    for cs in itertools.combinations(cls, 2):
        for h in itertools.product(ops, repeat=2):
            yield (2, list(cs), list(h))


def jobs(tier):
    seed = int(os.environ.get('VERIF_SEED', '0') or 0)
    rng = random.Random(1234 + seed)
    scs = list(CURATED)
    fb = family_backjump()
    scs += fb[::2] if tier == 'quick' else fb
    scs += family_simplify()
    if tier == 'quick':
        scs += sample(rng, 70, 3, 4, 4)
        scs += sample(rng, 30, 4, 5, 5)
        k = 6
    else:
        scs += sample(rng, 400, 3, 4, 5)
        scs += sample(rng, 300, 4, 6, 6)
        scs += list(family_small())
        k = 8
    js = []
    for i, (V, cs, h) in enumerate(scs):
        js.append(Job('scenario%04d' % i, 'C07_sat.cpp', 'h_sat', SAT_UNITS, 48, params=scen(V, cs, h), timeout=120,
                      desc=fmt(V, cs, h), bounds={'vars': V, 'clauses': len(cs), 'history': len(h)}))
    return batch(js, k)
