from specs.common import *
import specs.C07 as S, specs.C09 as L, specs.C10 as D, specs.C13 as B, specs.C14 as O, specs.C15 as A

ABNORMAL = ('REPO-ASSERT', 'STD-TERMINATE', 'PURE-VIRTUAL-CALL', 'LLVM-TRAP', 'UNMODELLED-CALL', 'arithmetic overflow', 'division by zero', 'overflow')
INFO = {
    'what': ('abnormal termination of the constraint-network library under precondition-respecting API use: every query of the C07, C09, C10, C13, C14 and C15 (lin) checks is re-read for exactly the outcomes assert() failure (assertions are live in the '
             'encoding), an exception escaping a noexcept function (std::terminate), pure-virtual call, trap, signed overflow and division by zero; functional mismatches are not counted here. A query whose unwinding assertion fails (a loop of the code under test exceeds the generous bound although the '
             'scenario is concrete) is replayed natively: a native hang or abort is reported as a violation (non-termination), a normal native run leaves it without verdict. '
             'The text-input half of the property (lexer / parser on arbitrary bytes) is NOT covered: see DESIGN.md section 3 for the measured reason'),
    'units': sorted(set(SAT_UNITS + LRA_UNITS + IDL_UNITS + RDL_UNITS + OV_UNITS)),
    'functions': ['every function reached by the C07 / C09 / C10 / C13 / C14 / C15 queries'],
    'assumptions': COMMON_ASSUMPTIONS + ['only API-level sequences are covered; inputs are those of the re-used checks'],
    'outside': 'lexer, parser, core, solver and main (whole programs, invalid text input, hangs on unterminated strings / comments), leaks, invalid memory accesses inside libstdc++ models, Release-vs-Debug differences',
}


def members(js):
    out = []
    for j in js:
        out += (j.members if j.members else [j])
    return out


def jobs(tier):
    sel = []
    step = 3 if tier == 'quick' else 2
    for pre, spec, k in (('sat', S, 6), ('lra', L, 1), ('dl', D, 5), ('bool', B, 1), ('ov', O, 4), ('arith', A, 1)):
        ms = members(spec.jobs(tier))
        if pre == 'arith':
            ms = [m for m in ms if m.name.startswith('lin/')]
        if pre == 'bool':
            ms = ms[::8] if tier == 'quick' else ms[::4]
        keep = {'sat': len(S.CURATED), 'dl': 2 * len(D.CURATED), 'lra': len(L.CURATED)}.get(pre, 0)   # curated scenarios are always included
        if pre == 'dl':
            undo = set(th + ': ' + D.fmt(*x) for x in D.family_undo() for th in ('idl', 'rdl'))   # restored / stale predecessors: where an explanation walk can cycle
            cur = [m for m in ms if int(m.name.split('scenario')[-1]) < len(D.CURATED) or m.desc in undo]
            ms = cur + [m for m in ms if m not in cur][::step]
        else:
            ms = ms[:keep] + ms[keep:][::step]
        for m in ms:
            m.name = pre + '/' + m.name
            m.only_labels = ABNORMAL
            if m.params and m.params[0] == 1 and len(m.params) > 2 and m.params[1] == len(m.params) - 2 and m.entry in ('h_sat', 'h_lra', 'h_dl', 'h_ov'):
                m.params = m.params[2:]
        batched = [m for m in ms if m.entry in ('h_sat', 'h_lra', 'h_dl', 'h_ov')]
        plain = [m for m in ms if m not in batched]
        bs = batch(batched, k, name_prefix=pre + '-batch')
        for b in bs:
            b.only_labels = ABNORMAL
            for m in b.members: m.only_labels = ABNORMAL
        sel += plain + bs
    return sel
