from specs.common import *
import itertools, random, os

INFO = {
    'what': 'smt::lra_theory (new_var, new_lt/leq/eq/geq/gt incl. the TRUE/FALSE shortcuts, slack sharing and substitution of basic variables, assert_lower/upper, update, pivot_and_update, pivot, check, push/pop, bound propagation in lra_constraint.cpp) driven through sat_core on concrete relation sets and histories; values are checked concretely, bounds / explanations / literal meanings over ALL points (X,Y) of a grid and ALL SAT assignments (symbolic)',
    'units': LRA_UNITS,
    'functions': ['lra_theory::new_var', 'new_var(lin)', 'new_lt', 'new_leq', 'new_geq', 'new_gt', 'new_eq', 'propagate', 'check', 'push', 'pop', 'assert_lower', 'assert_upper', 'update', 'pivot_and_update', 'pivot', 'new_row',
                  'assertion::propagate_lb/ub', 'row::propagate_lb/ub', 'theory::analyze_and_backjump', 'sat_core::assume/pop/propagate/check/analyze/record'],
    'assumptions': COMMON_ASSUMPTIONS + ['relation sets (coefficients in [-2,2], constants integer or half-integer) and histories are concrete per query (curated + seeded sample); the point (X,Y) ranges over the integer grid [-6,6]^2 and the SAT assignment over all values (symbolic)',
                                         'completeness statements (bounds contain every solution, no false conflict, literal <=> relation) are relative to that grid'],
    'outside': 'more than two original variables, coefficients beyond +-2, real solutions that are not grid points, value listeners, the PARALLELIZE build',
}

A, POP, ROOT, CHK, REQ, CL = 0, 1, 2, 3, 4, 5


def cl(r1, s1, r2, s2):
    return (CL, r1, s1 + 2 * s2 + 4 * r2)
REL = ['<', '<=', '=', '>=', '>']
ZT = [(1, 0, 3), (1, 1, -1), (-1, 0, 2), (2, -1, 1)]   # derived variables z_t = za*x + zb*y + zk (harness/C09_lra.cpp), a relation with 6th field 100+t is over z_t


def scen(rels, hist):
    p = [len(rels)]
    for r in rels: p += list(r) + ([0] if len(r) == 5 else [])
    p.append(len(hist))
    for h in hist: p += list(h)
    return p


CURATED = [
    # x <= 3, x >= 5 conflict on one variable
    ([(1, 1, 0, 3, 1), (3, 1, 0, 5, 1)], [(A, 0, 1), (A, 1, 1), (POP, 0, 0)]),
    # x + y <= 2, x >= 2, y >= 1 : infeasible triple -> pivoting + explanation
    ([(1, 1, 1, 2, 1), (3, 1, 0, 2, 1), (3, 0, 1, 1, 1)], [(A, 0, 1), (A, 1, 1), (A, 2, 1), (POP, 0, 0)]),
    # strict versus non-strict: x < 1 and x >= 1
    ([(0, 1, 0, 1, 1), (3, 1, 0, 1, 1)], [(A, 0, 1), (A, 1, 1)]),
    ([(0, 1, 0, 1, 1), (3, 1, 0, 1, 1)], [(A, 1, 1), (CHK, 0, 1), (A, 0, 0)]),
    # negated literals, same bound tightened twice across two levels, popped twice
    ([(1, 1, 0, 4, 1), (1, 1, 0, 2, 1), (3, 1, 0, 3, 1)], [(A, 0, 1), (A, 1, 1), (POP, 0, 0), (A, 2, 1), (POP, 0, 0), (POP, 0, 0)]),
    # shared slack: x - y <= 1 and x - y >= 0 and x - y = 1/2
    ([(1, 1, -1, 1, 1), (3, 1, -1, 0, 1), (2, 1, -1, 1, 2)], [(A, 0, 1), (A, 1, 1), (A, 2, 1), (POP, 0, 0)]),
    # root bounds first, then requests decided by them (TRUE / FALSE shortcuts)
    ([(1, 1, 0, 3, 1), (3, 1, 0, 0, 1), (1, 1, 0, 5, 1), (4, 1, 0, 4, 1)], [(ROOT, 0, 1), (ROOT, 1, 1), (A, 2, 1), (A, 3, 1)]),
    # two slacks over a basic variable: 2x + y <= 4 asserted (pivot), then x + y >= 3, x <= 0
    ([(1, 2, 1, 4, 1), (3, 1, 1, 3, 1), (1, 1, 0, 0, 1), (4, 0, 1, 4, 1)], [(A, 0, 1), (A, 1, 1), (A, 2, 1), (A, 3, 1), (POP, 0, 0)]),
    # equality then disequality through strict literals
    ([(2, 1, 1, 2, 1), (0, 1, 0, 1, 1), (4, 1, 0, 1, 1)], [(A, 0, 1), (A, 1, 0), (A, 2, 0)]),
    # one decision tightening BOTH bounds of a variable in one level (either order), then retracting it  (x <= 3 -> x >= 1, and x >= 1 -> x <= 3)
    ([(1, 1, 0, 3, 1), (3, 1, 0, 1, 1), (3, 1, 0, 2, 1)], [cl(0, 0, 1, 1), (A, 0, 1), (POP, 0, 0), (A, 2, 0), (POP, 0, 0)]),
    ([(1, 1, 0, 3, 1), (3, 1, 0, 1, 1), (1, 1, 0, 0, 1)], [cl(1, 0, 0, 1), (A, 1, 1), (POP, 0, 0), (A, 2, 1), (POP, 0, 0)]),
    ([(1, 1, 1, 3, 1), (3, 1, 1, 2, 1), (1, 1, 1, 1, 1)], [cl(0, 0, 1, 1), (A, 0, 1), (POP, 0, 0), (A, 2, 1)]),
    ([(1, 1, 1, 3, 1), (3, 1, 1, 2, 1), (3, 1, 1, 4, 1)], [cl(1, 0, 0, 1), (A, 1, 1), (POP, 0, 0), (A, 2, 1)]),
    ([(2, 1, 0, 2, 1), (1, 1, 0, 1, 1), (3, 1, 0, 3, 1)], [(A, 0, 1), (POP, 0, 0), (A, 1, 1), (POP, 0, 0), (A, 2, 1)]),
    # derived variables created through new_var(lin): tableau rows WITH a constant term (z = x + 3; z = x + y - 1; z = -x + 2)
    ([(3, 1, 0, 5, 1, 100), (1, 1, 0, 1, 1, 0), (1, 1, 0, 4, 1, 0)], [(A, 0, 1), (A, 1, 1), (POP, 0, 0), (A, 2, 1), (POP, 0, 0)]),
    ([(1, 1, 0, 2, 1, 101), (3, 1, 0, 2, 1, 0), (3, 0, 1, 2, 1, 0)], [(A, 1, 1), (A, 2, 1), (A, 0, 1), (POP, 0, 0)]),
    ([(2, 1, 1, 3, 1, 102), (3, 1, 0, 1, 1, 0), (1, 0, 1, 0, 1, 0)], [(A, 0, 1), (A, 1, 1), (A, 2, 1), (POP, 0, 0), (POP, 0, 0)]),
    # negative coefficients
    ([(1, -1, 2, 1, 1), (3, -2, 1, 0, 1), (0, 0, -1, -1, 1)], [(A, 0, 1), (A, 1, 1), (A, 2, 1), (POP, 0, 0), (CHK, 2, 0)]),
]


def family_bound_propagation():
    """row bound propagation with explanation (lra_constraint.cpp): s = c1*x + c2*y with an undecided assertion on s; bounds on x and y are
    decided at two different levels (both orders) so that the assertion on s becomes implied (or refuted) and must be explained by BOTH bounds"""
    out = []
    for c1 in (1, -1):
        for c2 in (1, -1):
            for lower in (True, False):
                # to bound s from below we need lower bounds of positive-coefficient variables and upper bounds of negative ones
                bx = (3 if lower else 1, 1) if (c1 > 0) == lower else (1 if lower else 3, 1)   # (rel code, constant): 3 is >=, 1 is <=
                by = (3 if lower else 1, 2) if (c2 > 0) == lower else (1 if lower else 3, 2)
                implied = c1 * bx[1] + c2 * by[1]
                for delta in (0, -1 if lower else 1):
                    rs = (3 if lower else 1, c1, c2, implied + delta, 1)       # the assertion on s that becomes true
                    rx = (bx[0], 1, 0, bx[1], 1); ry = (by[0], 0, 1, by[1], 1)
                    out.append(([rs, rx, ry], [(A, 1, 1), (A, 2, 1), (POP, 0, 0), (POP, 0, 0), (A, 2, 1), (A, 0, 0)]))
                    out.append(([rs, rx, ry], [(A, 2, 1), (A, 1, 1), (POP, 0, 0), (POP, 0, 0), (CHK, 0, 0)]))
    return out


def family_implied_conflict():
    """one decision that implies (through root clauses) two contradictory bounds of x and a further theory literal: the theory conflict is found while
    implied literals are still waiting in the propagation queue, the learnt clause is unit, so the core backjumps to ROOT level; what was waiting
    in the queue belongs to the undone level and must not be treated as root-level facts afterwards"""
    r0 = (1, 0, 1, 0, 1); r1 = (3, 1, 0, 5, 1); r2 = (1, 1, 0, 3, 1); r3 = (3, 0, 1, -2, 1); r4 = (1, 0, 1, 4, 1)
    out = []
    out.append(([r0, r1, r2, r3], [cl(0, 0, 1, 1), cl(0, 0, 2, 1), cl(0, 0, 3, 1), (A, 0, 1), (A, 2, 1), (POP, 0, 0)]))
    out.append(([r0, r1, r2, r3], [cl(0, 0, 2, 1), cl(0, 0, 1, 1), cl(0, 0, 3, 1), (A, 0, 1), (A, 1, 1), (A, 3, 1), (POP, 0, 0)]))
    out.append(([r0, r1, r2, r4], [cl(0, 0, 1, 1), cl(0, 0, 2, 1), (A, 3, 1), (A, 0, 1), (A, 2, 1), (POP, 0, 0)]))   # an unrelated decision first: the backjump undoes two levels
    return out


def family_unate():
    """propositional inconsistency seen by unate propagation (assertion::propagate_lb / propagate_ub): one decision p makes a = [x >= 5] true and
    b = [x >= 3] false in the same propagation batch (root clauses), so the theory meets a bound while a weaker assertion on the same variable is
    already False in the SAT core and must explain the conflict with the reason of the RIGHT bound; both clause orders, with and without an
    earlier decision on the opposite bound; mirrored for upper bounds"""
    out = []
    pz = (1, 0, 1, 0, 1)
    for lower in (True, False):
        a = (3, 1, 0, 5, 1) if lower else (1, 1, 0, 1, 1)
        b = (3, 1, 0, 3, 1) if lower else (1, 1, 0, 3, 1)
        u = (1, 1, 0, 6, 1) if lower else (3, 1, 0, -6, 1)
        for first in (0, 1):
            cls = [cl(0, 0, 1, 1), cl(0, 0, 2, 0)] if first == 0 else [cl(0, 0, 2, 0), cl(0, 0, 1, 1)]
            out.append(([pz, a, b], cls + [(A, 0, 1), (A, 2, 0), (POP, 0, 0)]))
            out.append(([pz, a, b, u], cls + [(A, 3, 1), (A, 0, 1), (A, 2, 0), (POP, 0, 0), (POP, 0, 0)]))
    return out


def family_check_explanation():
    """a conflict found by the simplex check() on a row in which a variable has a NEGATIVE coefficient after a pivot, with an unrelated bound of the
    same slack asserted earlier: s = x - y; E: s <= 6, A: x <= 0, D: s >= 1 (pivot: y = x - s), B: y >= 0 -> the explanation must name A, D, B (the LOWER
    bound of s), not E; mirrored for the upper-bound branch; both with the decisions in two orders"""
    out = []
    E, A_, D, B = (1, 1, -1, 6, 1), (1, 1, 0, 0, 1), (3, 1, -1, 1, 1), (3, 0, 1, 0, 1)
    out.append(([E, A_, D, B], [(A, 0, 1), (A, 1, 1), (A, 2, 1), (A, 3, 1)]))
    out.append(([E, A_, D, B], [(A, 0, 1), (A, 2, 1), (A, 3, 1), (A, 1, 1)]))
    E, A_, D, B = (3, 1, -1, -6, 1), (3, 1, 0, 0, 1), (1, 1, -1, -1, 1), (1, 0, 1, 0, 1)
    out.append(([E, A_, D, B], [(A, 0, 1), (A, 1, 1), (A, 2, 1), (A, 3, 1)]))
    out.append(([E, A_, D, B], [(A, 0, 1), (A, 2, 1), (A, 3, 1), (A, 1, 1)]))
    return out


def sample(rng, n, maxr, maxh):
    out = []
    for _ in range(n):
        rels = []
        for _ in range(rng.randint(2, maxr)):
            c1, c2 = rng.randint(-2, 2), rng.randint(-2, 2)
            if c1 == 0 and c2 == 0: c1 = 1
            k = rng.choice([(0, 1), (1, 1), (-2, 1), (3, 1), (1, 2), (-3, 2)])
            rels.append((rng.randint(0, 4), c1, c2, k[0], k[1]))
        hist = []
        for _ in range(rng.randint(2, maxh)):
            o = rng.choice([A, A, A, A, POP, ROOT, CHK])
            hist.append((o, rng.randrange(len(rels)), rng.choice([1, 1, 0])))
        out.append((rels, hist))
    return out


def fmt(rels, hist):
    def e(r):
        t = []
        if r[1]: t.append('%d*x' % r[1])
        if r[2]: t.append('%d*y' % r[2])
        if len(r) > 5 and r[5] >= 100:
            za, zb, zk = ZT[r[5] - 100]
            t = (['%d*z' % r[1]] if r[1] else []) + (['%d*y' % r[2]] if r[2] else [])
            return '%s%s %s %s [z = new_var(%d*x + %d*y + %d)]' % ('(deferred) ' if r[0] >= 10 else '', ' + '.join(t) or '0', REL[r[0] % 10], ('%d/%d' % (r[3], r[4])) if r[4] != 1 else str(r[3]), za, zb, zk)
        return '%s%s %s %s' % ('(deferred) ' if r[0] >= 10 else '', ' + '.join(t) or '0', REL[r[0] % 10], ('%d/%d' % (r[3], r[4])) if r[4] != 1 else str(r[3]))
    nm = {A: 'assume', POP: 'pop', ROOT: 'assert-at-root', CHK: 'check', REQ: 'request'}
    def one(o, c, s):
        if o == CL: return 'root-clause(%sr%d | %sr%d)' % ('' if s & 1 else '!', c, '' if s & 2 else '!', s >> 2)
        return nm[o] + ('' if o == POP else '(%sr%d)' % ('' if s else '!', c))
    return '%s  ::  %s' % (', '.join('r%d: %s' % (i, e(r)) for i, r in enumerate(rels)), '; '.join(one(o, c, s) for o, c, s in hist))


def jobs(tier):
    seed = int(os.environ.get('VERIF_SEED', '0') or 0)
    rng = random.Random(2468 + seed)
    scs = list(CURATED)
    fb = family_bound_propagation()
    scs += fb[::2] if tier == 'quick' else fb
    scs += family_implied_conflict()
    scs += family_unate()
    scs += family_check_explanation()
    if tier == 'quick':
        scs += sample(rng, 40, 3, 4)
        k = 1
    else:
        scs += sample(rng, 500, 4, 6)
        k = 1
    js = []
    for i, (rels, h) in enumerate(scs):
        js.append(Job('scenario%04d' % i, 'C09_lra.cpp', 'h_lra', LRA_UNITS, 100, params=scen(rels, h), timeout=240 if tier == 'quick' else 480, mem=6 if tier == 'quick' else 8,
                      desc=fmt(rels, h), bounds={'variables': 2, 'relations': len(rels), 'history': len(h), 'grid': 6}))
    return batch(js, k)
