from specs.common import *
import itertools, random, os

INFO = {
    'what': 'idl_theory / rdl_theory new_lt, new_leq, new_eq, new_geq, new_gt and bounds(lin), distance(lin,lin), equates(lin,lin) on concrete expression shapes; the meaning of the returned literal is decided over ALL time-point assignments and ALL SAT assignments (symbolic)',
    'units': sorted(set(IDL_UNITS + RDL_UNITS)),
    'functions': ['idl_theory::new_lt/new_leq/new_eq/new_geq/new_gt', 'idl_theory::bounds(lin)', 'distance(lin,lin)', 'equates', 'new_distance', 'the same for rdl_theory', 'sat_core::new_conj', 'lin operator- and operator/'],
    'assumptions': COMMON_ASSUMPTIONS + ['expression shapes (coefficients in {0,+-1,+-2}, constants integer or half-integer), the relation and up to two root pre-constraints are concrete per query; x1, x2 in [-6,6] (steps of 1/2 for rdl) and the SAT assignment are symbolic',
                                         'a distance literal b created by new_distance(from,to,d) means to - from <= d (its documented meaning); relation literals are judged through that meaning'],
    'outside': 'more than two time points in one expression pair, coefficients beyond +-2, constants beyond the listed ones',
}

REL = ['lt', 'leq', 'eq', 'geq', 'gt']
KIND = REL + ['bounds', 'distance', 'equates']


def scen(pre, kind, L, R):
    p = [len(pre)]
    for c in pre: p += list(c)
    p += [kind] + list(L) + list(R)
    return p


def exprs():
    """(left, right) pairs: each expression is (c1, c2, kn, kd)"""
    out = []
    ks = [(0, 1), (1, 1), (-2, 1), (1, 2)]
    for c in (1, -1, 2, -2):
        for k in ks:
            out.append(((c, 0, k[0], k[1]), (0, 0, 0, 1)))          # c*x1 + k  vs 0
            out.append(((0, 0, k[0], k[1]), (0, c, 0, 1)))          # k vs c*x2
            out.append(((c, 0, k[0], k[1]), (0, c, 0, 1)))          # c*x1 + k vs c*x2
            out.append(((0, c, 0, 1), (c, 0, k[0], k[1])))          # c*x2 vs c*x1 + k
            out.append(((c, -c, k[0], k[1]), (0, 0, 1, 1)))         # c*(x1 - x2) + k vs 1
    out.append(((0, 0, 1, 1), (0, 0, 1, 1)))
    out.append(((0, 0, 1, 2), (0, 0, 2, 1)))
    out.append(((1, 1, 0, 1), (0, 0, 0, 1)))                        # x1 + x2: not a difference expression
    out.append(((2, -1, 0, 1), (0, 0, 0, 1)))                       # 2*x1 - x2: not a difference expression
    out.append(((1, 0, 0, 1), (1, 0, 3, 1)))                        # x1 vs x1 + 3: cancelling variable
    return out


PRES = [[], [(1, 2, 1), (2, 1, 0)], [(0, 1, 3), (1, 0, -1)], [(1, 2, -1)], [(0, 2, 2), (2, 0, 2)]]


def boundary_scenarios():
    """requests whose constant sits exactly on / just beside a bound that the root constraints already imply (the TRUE / FALSE
    shortcuts and the pre-checks of new_eq compare with <, <=, >=, > against those bounds)"""
    out = []
    pres = [([(1, 2, 1), (2, 1, 0)], 0, 1), ([(1, 2, 2), (2, 1, 1)], -1, 2)]   # lo <= x2 - x1 <= hi
    for pre, lo, hi in pres:
        for kind in range(5):
            for b in (lo - 1, lo, hi, hi + 1):
                out.append((pre, kind, (0, 1, 0, 1), (1, 0, b, 1)))      # x2  REL  x1 + b
                out.append((pre, kind, (1, 0, b, 1), (0, 1, 0, 1)))      # x1 + b  REL  x2
    # one variable against the origin: 1 <= x1 <= 3
    pre = [(0, 1, 3), (1, 0, -1)]
    for kind in range(5):
        for b in (0, 1, 3, 4):
            out.append((pre, kind, (1, 0, 0, 1), (0, 0, b, 1)))
            out.append((pre, kind, (0, 0, b, 1), (1, 0, 0, 1)))
    return out


def fmt(pre, kind, L, R):
    def e(x):
        t = []
        if x[0]: t.append('%d*x1' % x[0])
        if x[1]: t.append('%d*x2' % x[1])
        t.append('%d/%d' % (x[2], x[3]) if x[3] != 1 else str(x[2]))
        return ' + '.join(t)
    return 'pre=%s  %s( %s , %s )' % (['t%d-t%d<=%d' % (t, f, d) for f, t, d in pre], KIND[kind], e(L), e(R))


def finding_of(theory, pre, kind, L, R):
    """known-finding class a scenario belongs to (see known_findings.json), or None"""
    from fractions import Fraction
    if kind == 5 and L[0] != 0 and L[1] != 0:
        if theory == 'rdl' or L[0] != 1: return 'C12-bounds-two-variables'
    a1, a2 = L[0] - R[0], L[1] - R[1]
    k = Fraction(L[2], L[3]) - Fraction(R[2], R[3])
    if kind == 6 and (a1 != 0 or a2 != 0) and (a1 == 0 or a2 == 0 or a1 == -a2):
        if (a1, a2, k) not in ((1, -1, 0), (1, 0, 0), (0, 1, 0)): return 'C12-distance-of-expressions'
    if kind == 7:
        nl = (L[0] != 0) + (L[1] != 0); nr = (R[0] != 0) + (R[1] != 0)
        if nl == 1 and nr == 1:
            cl = L[0] or L[1]; cr = R[0] or R[1]
            if not (k == 0 and cl == cr): return 'C12-equates-one-variable-each-side'
    return None


# one reproducer per recorded finding and theory: while a finding is open its query is EXPECTED to fail; once repaired (all three are, see known_findings.json 'fixed') they are ordinary queries of both tiers
REPRO = {
    'C12-bounds-two-variables': {'idl': ([(1, 2, -1)], 5, (-1, 1, -2, 1), (0, 0, 1, 1)), 'rdl': ([(1, 2, 1), (2, 1, 0)], 5, (1, -1, 1, 2), (0, 0, 1, 1))},
    'C12-distance-of-expressions': {'idl': ([(1, 2, 1), (2, 1, 0)], 6, (2, 0, -2, 1), (0, 2, 0, 1)), 'rdl': ([(1, 2, 1), (2, 1, 0)], 6, (2, 0, -2, 1), (0, 2, 0, 1))},
    'C12-equates-one-variable-each-side': {'idl': ([(1, 2, -1)], 7, (0, 2, 0, 1), (2, 0, -2, 1)), 'rdl': ([(1, 2, -1)], 7, (0, 2, 0, 1), (2, 0, -2, 1))},
}


def jobs(tier):
    seed = int(os.environ.get('VERIF_SEED', '0') or 0)
    rng = random.Random(777 + seed)
    ex = exprs()
    all_sc = [(pre, kind, L, R) for pre in PRES for kind in range(8) for (L, R) in ex]
    if tier == 'quick':
        rng.shuffle(all_sc)
        # every relation / query kind with every pre-constraint set at least a few times
        sel = []
        per = {}
        for s in all_sc:
            key = (s[1], PRES.index(s[0]))
            if per.get(key, 0) < (4 if s[1] >= 5 else 2):   # bounds / distance / equates: more shapes (three repaired defects lived there)
                per[key] = per.get(key, 0) + 1; sel.append(s)
        bs = boundary_scenarios()
        scs = sel + [b for i, b in enumerate(bs) if i % 2 == 0]
        for fid in sorted(REPRO):   # the reproducers of the (repaired) bounds / distance / equates defects are always part of the claim
            for th in ('idl', 'rdl'):
                if REPRO[fid][th] not in scs: scs.append(REPRO[fid][th])
        k = 5
    else:
        scs = [x for i, x in enumerate(all_sc) if i % 2 == seed % 2] + boundary_scenarios() + [REPRO[f][t] for f in sorted(REPRO) for t in ('idl', 'rdl')]   # half of the systematic product per run (the seed picks which half) keeps the tier under an hour
        k = 6
    js = []
    opn = open_findings('C12')
    singles = []
    for theory, defs, units in (('idl', [], IDL_UNITS), ('rdl', ['RDL'], RDL_UNITS)):
        for fid in opn:
            if fid in REPRO and theory in REPRO[fid]:
                pre, kind, L, R = REPRO[fid][theory]
                singles.append(Job('%s/known-finding/%s' % (theory, fid), 'C12_dlrel.cpp', 'h_rel', units, 100, defs=defs, params=[1, len(scen(pre, kind, L, R))] + scen(pre, kind, L, R), timeout=240,
                                   desc=theory + ' reproducer of a recorded finding: ' + fmt(pre, kind, L, R), kfonly=fid))
        for i, (pre, kind, L, R) in enumerate(scs):
            if finding_of(theory, pre, kind, L, R) in opn:
                continue  # inside the input class of a recorded, still open finding: not part of the claim, re-demonstrated by its reproducer
            js.append(Job('%s/%s/%04d' % (theory, KIND[kind], i), 'C12_dlrel.cpp', 'h_rel', units, 100, defs=defs, params=scen(pre, kind, L, R), timeout=240,
                          desc=theory + ': ' + fmt(pre, kind, L, R), bounds={'x_range': 6, 'coefficients': 2}))
    return singles + batch(js, k)
