from specs.common import *
import itertools, random, os

INFO = {
    'what': 'smt::idl_theory and smt::rdl_theory (new_var, new_distance, propagate, push/pop, the incremental all-pairs update, explanations) driven through sat_core on concrete constraint sets and histories, compared with a Floyd-Warshall reference and with the semantics over ALL assignments of the time points (symbolic)',
    'units': sorted(set(IDL_UNITS + RDL_UNITS)),
    'functions': ['idl_theory::idl_theory', 'new_var', 'resize', 'new_distance', 'propagate(lit)', 'propagate(from,to,dist)', 'set_dist', 'set_pred', 'push', 'pop', 'check', 'the same for rdl_theory',
                  'theory::analyze_and_backjump', 'theory::record', 'sat_core::assume/pop/propagate/check/analyze/record'],
    'assumptions': COMMON_ASSUMPTIONS + ['constraint sets and histories are concrete per query (curated + seeded sample in quick, larger systematic families in thorough); the time-point assignment x in [-8,8]^T quantified over is symbolic',
                                         'rdl: constraint constants are integers, strictness enters through negated constraints; the symbolic x ranges over integers (a grid of the reals)'],
    'outside': 'more than 5 time points + origin per scenario (matrix growth from capacity 4 is exercised by the 4- and 5-point chains), distances outside [-3,3], value listeners',
}


def scen(T, cons, hist):
    p = [T, len(cons)]
    for c in cons: p += list(c)
    p.append(len(hist))
    for h in hist: p += list(h)
    return p


A, POP, ROOT, CHK, CL = 0, 1, 2, 3, 4


def cl(c1, s1, c2, s2):
    return (CL, c1, s1 + 2 * s2 + 4 * c2)
CURATED = [
    # chain 1->2->3 and a closing edge that makes a negative cycle when asserted
    (3, [(1, 2, 2), (2, 3, 1), (3, 1, -4)], [(A, 0, 1), (A, 1, 1), (A, 2, 1), (POP, 0, 0)]),
    (3, [(1, 2, 2), (2, 3, 1), (3, 1, -4), (1, 3, 3)], [(A, 0, 1), (A, 1, 1), (POP, 0, 0), (POP, 0, 0)]),
    # two constraints on the same pair, tightened across two levels and popped twice
    (2, [(1, 2, 3), (1, 2, 1), (2, 1, 0)], [(A, 0, 1), (A, 1, 1), (POP, 0, 0), (POP, 0, 0), (A, 1, 1)]),
    (2, [(1, 2, 3), (1, 2, 1), (1, 2, -1)], [(A, 0, 1), (A, 1, 1), (A, 2, 1), (POP, 0, 0), (A, 2, 0)]),
    # negated constraints (semantic branching)
    (2, [(1, 2, 1), (2, 1, 1)], [(A, 0, 0), (A, 1, 0)]),
    (3, [(1, 2, 0), (2, 3, 0), (1, 3, -1)], [(A, 0, 1), (A, 1, 1), (CHK, 2, 1), (A, 2, 0)]),
    # origin bounds
    (2, [(0, 1, 3), (1, 0, -1), (1, 2, 1), (0, 2, 1)], [(ROOT, 0, 1), (ROOT, 1, 1), (A, 2, 1), (A, 3, 1), (POP, 0, 0)]),
    (3, [(0, 1, 2), (1, 2, -3), (2, 0, 0), (2, 3, 1)], [(A, 0, 1), (A, 1, 1), (A, 2, 1), (A, 3, 1)]),
    # propagation of an undecided literal with explanation, then use it
    (3, [(1, 2, 1), (2, 3, 1), (1, 3, 2), (1, 3, 1), (3, 1, -3)], [(A, 0, 1), (A, 1, 1), (A, 3, 1), (POP, 0, 0), (POP, 0, 0)]),
    # a four-edge chain t1 -> t2 -> t3 -> t4 -> t5 whose inner edge is asserted last, above root level; the undecided constraint on (t1,t5) is
    # decided by it and its explanation has to name all four edges (also: the matrix grows from capacity 4)
    (5, [(1, 2, 1), (3, 4, 1), (4, 5, 1), (2, 3, 1), (1, 5, 10), (5, 1, -5)], [(A, 0, 1), (A, 1, 1), (A, 2, 1), (A, 3, 1), (POP, 0, 0), (POP, 0, 0)]),
    (5, [(1, 2, 1), (3, 4, 1), (4, 5, 1), (2, 3, 1), (1, 5, 4), (5, 1, -5)], [(ROOT, 0, 1), (ROOT, 1, 1), (A, 2, 1), (A, 3, 1), (POP, 0, 0), (A, 5, 1)]),
    (4, [(1, 2, 2), (3, 4, 2), (2, 3, -1), (1, 4, 3), (4, 1, -4)], [(A, 0, 1), (A, 1, 1), (A, 2, 1), (POP, 0, 0), (A, 4, 1)]),
    # root level assertion + redundant / inconsistent new constraints afterwards are covered by the TRUE/FALSE checks at creation
    (2, [(1, 2, 2), (2, 1, -3)], [(ROOT, 0, 1), (ROOT, 1, 1)]),
]


def boundary_family():
    """systematic: two or three constraints on ONE pair of time points whose constants differ by -1 / 0 / +1 (so that <, <=, >=, >
    boundaries of the implementation are all hit), asserted and negated in both orders, then popped"""
    out = []
    for d in (-1, 1):
        for e in (-1, 0, 1):
            # c0: t2 - t1 <= d ; c1: t1 - t2 <= -d + e  (i.e. t2 - t1 >= d - e) ; c2: t2 - t1 <= d + e
            cons = [(1, 2, d), (2, 1, -d + e), (1, 2, d + e)]
            for s0, s1 in ((1, 1), (1, 0), (0, 1), (0, 0)):
                out.append((2, cons, [(A, 0, s0), (A, 1, s1), (CHK, 2, 1), (POP, 0, 0), (A, 2, s1)]))
                out.append((2, cons, [(A, 1, s1), (A, 0, s0), (A, 2, 0), (POP, 0, 0), (POP, 0, 0)]))
    # one decision that tightens the same matrix entry twice (a root clause makes the weaker constraint imply the tighter one), then retract it
    for (d1, d2) in ((3, 1), (1, 3), (2, 2), (0, -1)):
        cons = [(1, 2, d1), (1, 2, d2), (2, 3, 1), (3, 1, -d1 - 1)]
        out.append((3, cons, [(ROOT, 2, 1), cl(0, 0, 1, 1), (A, 0, 1), (POP, 0, 0), (A, 3, 1)]))
        out.append((3, cons, [cl(0, 0, 1, 1), cl(1, 0, 2, 1), (A, 0, 1), (POP, 0, 0), (A, 1, 0), (POP, 0, 0)]))
        out.append((2, cons[:2], [cl(0, 1, 1, 1), (A, 0, 0), (POP, 0, 0), (A, 1, 1)]))
    # predecessor bookkeeping across levels: a two-edge path t1 -> t2 -> t3 (predecessor of (t1,t3) is t2) is overridden one level up by
    # a direct edge (predecessor t1), the direct edge is retracted, and then a conflict / propagation must be explained through the path again
    for direct in (0, 1):
        for viol in (-3, -2):
            cons = [(1, 2, 1), (2, 3, 1), (1, 3, direct), (3, 1, viol), (1, 3, 1)]
            out.append((3, cons, [(ROOT, 0, 1), (A, 1, 1), (A, 2, 1), (POP, 0, 0), (A, 3, 1)]))
            out.append((3, cons, [(A, 0, 1), (A, 1, 1), (A, 2, 1), (POP, 0, 0), (A, 3, 1), (POP, 0, 0)]))
            out.append((3, cons, [(A, 1, 1), (A, 0, 1), (A, 2, 1), (POP, 0, 0), (CHK, 3, 1), (A, 4, 0)]))
    # the same boundary reached through a two-edge path t1 -> t2 -> t3
    for e in (-1, 0, 1):
        cons = [(1, 2, 1), (2, 3, 1), (3, 1, -2 + e), (1, 3, 2 + e)]
        out.append((3, cons, [(A, 0, 1), (A, 1, 1), (A, 2, 0), (POP, 0, 0), (A, 3, 0)]))
        out.append((3, cons, [(A, 2, 1), (A, 0, 1), (A, 1, 1), (POP, 0, 0)]))
    return out


def family_undo():
    """scenarios whose point is the state after an undo; C08 quick keeps all of them"""
    out = []
    # restored predecessors: a two-edge path t1 -> t2 -> t3 is overridden one level up by a direct edge which is then retracted; the restored
    # predecessor must be the OLD one (t2), not the source: after the direct edge is retracted a further edge t3 -> t4 is
    # asserted, so that the explanation of the now decided constraints on (t1,t4) has to walk t4 -> t3 -> t2 -> t1 through the restored entry
    for direct in (0, 1):
        cons = [(1, 2, 1), (2, 3, 1), (1, 3, direct), (3, 4, 1), (4, 1, -4), (1, 4, 3)]
        out.append((4, cons, [(ROOT, 0, 1), (A, 1, 1), (A, 2, 1), (POP, 0, 0), (A, 3, 1)]))
        out.append((4, cons, [(A, 0, 1), (A, 1, 1), (A, 2, 1), (POP, 0, 0), (A, 3, 1), (POP, 0, 0)]))
        out.append((4, cons, [(A, 1, 1), (A, 0, 1), (A, 2, 1), (POP, 0, 0), (A, 3, 1)]))
    # a stale predecessor can close a CYCLE in the explanation walk: x -> v and w -> v at root; level 1 asserts x -> w (predecessor of (x,v) becomes w)
    # and is retracted; then v -> w is asserted, (x,w) gets predecessor v, and the redundant constraint on (x,w) must be explained by walking w -> v -> x
    cons = [(1, 2, 3), (3, 2, 1), (1, 3, 1), (2, 3, 1), (1, 3, 5)]
    out.append((3, cons, [(ROOT, 0, 1), (ROOT, 1, 1), (A, 2, 1), (POP, 0, 0), (A, 3, 1)]))
    out.append((3, cons, [(ROOT, 1, 1), (A, 0, 1), (A, 2, 1), (POP, 0, 0), (A, 3, 1), (POP, 0, 0)]))
    # one decision that implies (root clauses) two contradictory constraints and a third one: the conflict is found while implied literals still wait
    # in the propagation queue, the learnt clause is unit and the core backjumps to root; the waiting literals belong to the undone level
    cons = [(2, 3, 3), (1, 2, 1), (2, 1, -3), (1, 3, 2)]
    out.append((3, cons, [cl(0, 0, 1, 1), cl(0, 0, 2, 1), cl(0, 0, 3, 1), (A, 0, 1), (A, 2, 1), (POP, 0, 0)]))
    out.append((3, cons, [cl(0, 0, 2, 1), cl(0, 0, 1, 1), cl(0, 0, 3, 1), (A, 0, 1), (A, 1, 1), (A, 3, 1), (POP, 0, 0)]))
    out.append((3, cons, [cl(0, 0, 1, 1), cl(0, 0, 2, 1), (A, 3, 1), (A, 0, 1), (A, 2, 1), (POP, 0, 0)]))
    return out


def family_chain_orders():
    """a three-edge chain t1 -> t2 -> t3 -> t4 asserted above root level in EVERY order, with an undecided redundant constraint and an undecided
    inconsistent constraint on (t1,t4): whichever edge comes last, the incremental update has to compose the predecessors of both sub-paths, and
    the explanations of the two decided constraints must name all three edges; then everything is retracted and one edge re-asserted (a reason
    that named too few edges would now propagate something that is not implied)"""
    out = []
    cons = [(1, 2, 1), (2, 3, 1), (3, 4, 1), (1, 4, 5), (4, 1, -4)]
    for order in itertools.permutations((0, 1, 2)):
        h = [(A, e, 1) for e in order] + [(POP, 0, 0), (POP, 0, 0), (POP, 0, 0), (A, order[2], 1)]
        out.append((4, cons, h))
    return out


def sample(rng, n, T, maxc, maxh):
    out = []
    for _ in range(n):
        cons = []
        for _ in range(rng.randint(2, maxc)):
            f = rng.randint(0, T); t = rng.choice([v for v in range(0, T + 1) if v != f])
            cons.append((f, t, rng.randint(-3, 3)))
        hist = []
        for _ in range(rng.randint(2, maxh)):
            o = rng.choice([A, A, A, A, POP, ROOT, CHK])
            hist.append((o, rng.randrange(len(cons)), rng.choice([1, 1, 0])))
        out.append((T, cons, hist))
    return out


def fmt(T, cons, hist):
    cs = ', '.join('c%d: t%d-t%d<=%d' % (i, t, f, d) for i, (f, t, d) in enumerate(cons))
    nm = {A: 'assume', POP: 'pop', ROOT: 'assert-at-root', CHK: 'check'}
    def one(o, c, s):
        if o == CL: return 'root-clause(%sc%d | %sc%d)' % ('' if s & 1 else '!', c, '' if s & 2 else '!', s >> 2)
        return nm[o] + ('' if o == POP else '(%sc%d)' % ('' if s else '!', c))
    hs = '; '.join(one(o, c, s) for o, c, s in hist)
    return '%s  ::  %s' % (cs, hs)


def jobs(tier):
    seed = int(os.environ.get('VERIF_SEED', '0') or 0)
    rng = random.Random(4321 + seed)
    scs = list(CURATED) + boundary_family() + family_undo() + family_chain_orders()
    if tier == 'quick':
        scs += sample(rng, 20, 3, 5, 5) + sample(rng, 6, 2, 4, 6)
        k = 5
    else:
        scs += sample(rng, 400, 3, 6, 6) + sample(rng, 200, 2, 5, 7)
        k = 6
    js = []
    for theory, defs, units in (('idl', [], IDL_UNITS), ('rdl', ['RDL'], RDL_UNITS)):
        for i, (T, cs, h) in enumerate(scs):
            js.append(Job('%s/scenario%04d' % (theory, i), 'C10_dl.cpp', 'h_dl', units, 100, defs=defs, params=scen(T, cs, h), timeout=90, mem=8,
                          desc=theory + ': ' + fmt(T, cs, h), bounds={'time_points': T, 'constraints': len(cs), 'history': len(h), 'x_range': 8}))
    return batch(js, k)
