from specs.common import *
import specs.C07 as S, specs.C09 as L, specs.C10 as D, specs.C14 as O

INFO = {
    'what': ('undoing decisions in sat_core, lra_theory, idl_theory, rdl_theory and ov_theory: the scenarios of C07 / C09 / C10 / C14 whose histories contain pop() (explicit pops, backjumps after conflicts, check()). '
             'After every pop the SAT values must again be exactly the consequences of the clauses and the remaining decisions (entailment + propagation fixpoint, decided over ALL assignments), the difference-logic matrix must equal the '
             'Floyd-Warshall reference of the remaining constraints, LRA bounds must equal their snapshot from before the undone decision, and reported object-variable domains must equal their snapshot'),
    'units': sorted(set(SAT_UNITS + LRA_UNITS + IDL_UNITS + RDL_UNITS + OV_UNITS)),
    'functions': ['sat_core::pop', 'pop_one', 'analyze (backjump)', 'check', 'lra_theory::push/pop', 'idl_theory::push/pop/set_dist/set_pred', 'rdl_theory::push/pop/set_dist/set_pred', 'ov_theory::push/pop/value'],
    'assumptions': COMMON_ASSUMPTIONS + ['histories are concrete per query (those of the C07, C09, C10 and C14 checks that contain a pop); model / point / time-point assignments are symbolic'],
    'outside': 'networks mixing several theories in one history, histories longer than those enumerated, solver-level backtracking (solver.cpp)',
}


def members(js):
    out = []
    for j in js:
        out += (j.members if j.members else [j])
    return out


def jobs(tier):
    sel = []
    for pre, spec, k in (('sat', S, 6), ('lra', L, 1), ('dl', D, 5), ('ov', O, 4)):
        ms = [m for m in members(spec.jobs(tier)) if 'pop' in m.desc or 'history' in m.desc]
        if tier == 'quick':
            # the curated scenarios and the families whose whole point is an undo (both bounds in one level, backjump to root with a non-empty
            # propagation queue, restored predecessors, chains retracted and re-asserted) are never thinned out; the rest is sampled by position
            if pre == 'lra':
                keep = set(L.fmt(*x) for x in list(L.CURATED) + L.family_implied_conflict() + L.family_unate())
            elif pre == 'dl':
                keep = set(th + ': ' + D.fmt(*x) for x in list(D.CURATED) + D.family_undo() + D.family_chain_orders() for th in ('idl', 'rdl'))
            elif pre == 'sat':
                keep = set(m.desc for m in ms[:len(S.CURATED)])
            else:
                keep = set()
            step = 3 if pre in ('dl', 'lra') else 2 if pre == 'sat' else 1
            ms = [m for i, m in enumerate(ms) if i % step == 0 or m.desc in keep]
        for m in ms:
            m.name = pre + '/' + m.name
            if m.params and m.params[0] == 1 and len(m.params) > 2 and m.params[1] == len(m.params) - 2:
                m.params = m.params[2:]  # un-batch: batch() wraps again
        sel += batch([m for m in ms if m.entry not in ('h_big',)], k, name_prefix=pre + '-batch')
    return sel
