import os, sys
sys.path.insert(0, os.path.join(os.path.dirname(os.path.dirname(os.path.abspath(__file__))), 'lib'))
from driver import Job

SAT_UNITS = ['smt/sat_core.cpp', 'smt/clause.cpp', 'smt/constr.cpp', 'smt/theory.cpp', 'smt/json/json.cpp']
ARITH_UNITS = ['smt/arith/rational.cpp', 'smt/arith/lin.cpp']
LRA_UNITS = SAT_UNITS + ARITH_UNITS + ['smt/arith/lra/lra_theory.cpp', 'smt/arith/lra/lra_constraint.cpp']
IDL_UNITS = SAT_UNITS + ARITH_UNITS + ['smt/arith/dl/idl_theory.cpp']
RDL_UNITS = SAT_UNITS + ARITH_UNITS + ['smt/arith/dl/rdl_theory.cpp']
OV_UNITS = SAT_UNITS + ['smt/ov/ov_theory.cpp']
LEX_UNITS = ['riddle/riddle_lexer.cpp']

COMMON_ASSUMPTIONS = [
    'clang++-14 IR of the current /repo sources is the semantics checked (asserts enabled, -fno-access-control so that harnesses can read private state)',
    'operator new never fails; free/delete is a no-op in the encoding (allocation failure, use-after-free and leaks are outside the claim)',
    'libstdc++ out-of-line pieces are modelled in ll2c/rt/ll2c_rt.h: std::string growth, red-black tree rebalancing as an unbalanced BST (order/iteration preserved), '
    'std::hash of bytes = constant, unordered containers never rehash; container node storage is typed (harness/shadow/ext/aligned_buffer.h)',
    'cbmc run with --no-standard-checks (memory safety of library code is not claimed) plus the checks named per query',
]


def batch(jobs, k, name_prefix='batch'):
    """pack jobs (same harness / entry / units / unwind, each with .params) into batch jobs of k members.
    The harness entry must read PARAM(0) = number of shapes and then, per shape, its length followed by its parameters."""
    out = []
    groups = {}
    for j in jobs:
        groups.setdefault((j.harness, j.entry, j.units, j.unwind, j.defs, j.flags, j.narrow), []).append(j)
    n = 0
    for key, js in groups.items():
        for i in range(0, len(js), k):
            ms = js[i:i + k]
            params = [len(ms)]
            for m in ms:
                params += [len(m.params)] + list(m.params)
            b = Job('%s%d[%s..%s]' % (name_prefix, n, ms[0].name, ms[-1].name), ms[0].harness, ms[0].entry, ms[0].units, ms[0].unwind, defs=ms[0].defs, flags=ms[0].flags,
                    narrow=ms[0].narrow, timeout=(ms[0].timeout if len(ms) == 1 else int(0.6 * sum(m.timeout for m in ms))), mem=max(m.mem for m in ms), params=params, desc='batch of %d shapes' % len(ms))
            b.members = [Job(m.name, m.harness, m.entry, m.units, m.unwind, defs=m.defs, flags=m.flags, narrow=m.narrow, timeout=m.timeout, mem=m.mem,
                             params=[1, len(m.params)] + list(m.params), desc=m.desc, bounds=m.bounds, kf=m.kf, kfonly=m.kfonly) for m in ms]
            out.append(b); n += 1
    return out


def open_findings(pid):
    import json
    p = os.path.join(os.path.dirname(os.path.dirname(os.path.abspath(__file__))), 'known_findings.json')
    try:
        k = json.load(open(p))
    except Exception:
        return {}
    return {f['id']: f for f in k.get('findings', []) if f.get('property') == pid}
