import os, sys
sys.path.insert(0, os.path.join(os.path.dirname(os.path.dirname(os.path.abspath(__file__))), 'lib'))
from driver import Job

SAT_UNITS = ['smt/sat_core.cpp', 'smt/clause.cpp', 'smt/constr.cpp', 'smt/theory.cpp', 'smt/json/json.cpp']
ARITH_UNITS = ['smt/arith/rational.cpp', 'smt/arith/lin.cpp']
LRA_UNITS = SAT_UNITS + ARITH_UNITS + ['smt/arith/lra/lra_theory.cpp', 'smt/arith/lra/lra_constraint.cpp']
IDL_UNITS = SAT_UNITS + ARITH_UNITS + ['smt/arith/dl/idl_theory.cpp']
RDL_UNITS = SAT_UNITS + ARITH_UNITS + ['smt/arith/dl/rdl_theory.cpp']
OV_UNITS = SAT_UNITS + ['smt/ov/ov_theory.cpp']
LEX_UNITS = ['riddle/riddle_lexer.cpp']

COMMON_ASSUMPTIONS = [
    'clang++-14 IR of the current /repo sources is the semantics checked (asserts enabled, -fno-access-control so that harnesses can read private state)',
    'operator new never fails; free/delete is a no-op in the encoding (allocation failure, use-after-free and leaks are outside the claim)',
    'libstdc++ out-of-line pieces are modelled in ll2c/rt/ll2c_rt.h: std::string growth, red-black tree rebalancing as an unbalanced BST (order/iteration preserved), '
    'std::hash of bytes = constant, unordered containers never rehash; container node storage is typed (harness/shadow/ext/aligned_buffer.h)',
    'cbmc run with --no-standard-checks (memory safety of library code is not claimed) plus the checks named per query',
]
