from specs.common import *

INFO = {
    'what': 'every operator of smt::rational, smt::inf_rational and smt::lin on fully symbolic operands, compared with exact cross-multiplication / a dense reference vector',
    'units': ARITH_UNITS,
    'functions': ['rational::rational(I,I)', 'rational::normalize', 'rational comparisons (12)', 'rational + - * / (rational, I, compound, I on the left)', 'rational::operator-()',
                  'inf_rational comparisons and arithmetic (inf_rational.h)', 'lin + - * / unary minus, compound and scalar-on-the-left forms', 'std::gcd / std::lcm instantiations'],
    'assumptions': COMMON_ASSUMPTIONS + ['operands are canonical rationals with |numerator|, denominator <= B (B per query), or +-infinity where stated; cbmc additionally checks --signed-overflow-check and --div-by-zero-check'],
    'outside': 'operands beyond B (in particular the overflow behaviour of 64-bit products), 0*inf, inf-inf and x/0 (excluded by the implementation\'s own preconditions)',
}
AR = ['--signed-overflow-check', '--div-by-zero-check']
OPN = ['add', 'sub', 'mul', 'div']
FORM = ['rat.rat', 'compound', 'rat.int', 'compound-int', 'int.rat']


def jobs(tier):
    js = []
    B = 7 if tier == 'quick' else 9
    T = 280 if tier == 'quick' else 1500
    def add(name, entry, params, unwind=20, timeout=T, desc='', harness='C15_rational.cpp', narrow=0, backend=()):
        js.append(Job(name, harness, entry, ARITH_UNITS, unwind, params=params, flags=AR, timeout=timeout, desc=desc, narrow=narrow, backend=backend,
                      bounds={'B': params[0], 'word_bits': narrow or 64, 'unwind': unwind}))
    add('rational/ctor', 'h_ctor', [B], desc='rational(n,d) for all |n|,|d|<=B incl. negative / non-reduced / zero denominators')
    add('rational/cmp', 'h_cmp', [B], desc='six comparisons on two canonical operands incl. infinities')
    add('rational/cmp-int', 'h_cmp_int', [B], desc='six comparisons rational vs integer')
    add('rational/neg', 'h_neg', [B], desc='unary minus incl. infinities')
    add('rational/inf-arith', 'h_inf_arith', [B], desc='+ and * with an infinite operand')
    for op in range(4):
        for form in range(5):
            add('rational/%s/%s' % (OPN[op], FORM[form]), 'h_arith', [B, op, form], desc='%s in form %s on finite canonical operands' % (OPN[op], FORM[form]))
    add('inf_rational/cmp', 'h_infrat_cmp', [min(B, 5)], desc='lexicographic order of inf_rational, comparisons with rational and integer, sign predicates')
    IOPS = ['a+b', 'a-b', 'a*rat', 'a/rat', '-a', 'a+rat', 'a-rat', 'a+int', 'a-int', 'a*int', 'a/int', 'rat+a', 'rat-a', 'rat*a', 'int+a', 'int-a', 'int*a']
    for op in range(17):
        add('inf_rational/arith%d' % op, 'h_infrat_arith', [B, op], desc='inf_rational arithmetic, form %s (binary and compound / mirrored form)' % IOPS[op])
    LOPS = ['lin+lin', 'lin+=lin', 'lin-lin', 'lin-=lin', 'lin+rat', 'rat+lin', 'lin+=rat', 'lin-rat', 'rat-lin', 'lin-=rat', 'lin*rat', 'rat*lin', 'lin*=rat', 'lin/rat', 'lin/=rat', '-lin']
    LB = 4
    UW = 8
    import itertools
    for op, nm in enumerate(LOPS):
        binary = op < 4
        lefts = [0b000, 0b001, 0b011] if tier == 'quick' else [0b000, 0b001, 0b011, 0b101, 0b111]
        rights = ([0b000, 0b001, 0b010, 0b011] if tier == 'quick' else [0b000, 0b001, 0b010, 0b011, 0b110, 0b111]) if binary else [0]
        scalars = [0, 1, -1, 2, -3] if nm in ('lin*=rat',) else [99]
        for ml in lefts:
            for mr in rights:
                shared = [v for v in range(3) if (ml & mr) & (1 << v)]
                pair_choices = list(itertools.product(range(6), repeat=len(shared)))
                if tier == 'quick' and len(shared) == 2:
                    pair_choices = [(0, 2), (2, 0), (0, 0), (4, 1), (1, 4), (5, 3)]
                for pc in pair_choices:
                    pidx = [0, 0, 0]
                    for v, c in zip(shared, pc): pidx[v] = c
                    for sc in scalars:
                        add('lin/%s/L%s%s%s%s' % (nm, format(ml, '03b'), ('/R' + format(mr, '03b')) if binary else '', ('/pairs' + ''.join(map(str, pc))) if shared else '', ('/s%d' % sc) if sc != 99 else ''),
                            'h_lin', [LB, op, ml, mr, sc] + pidx, unwind=UW, timeout=T,
                            desc='%s with left variables mask %s%s; variables in both operands take the concrete coefficient pairs %s of PAIRS, all other coefficients (non-zero, |c|<=%d), the constants and the scalar%s are symbolic' % (
                                nm, format(ml, '03b'), (', right mask ' + format(mr, '03b')) if binary else '', list(pc), LB, '' if sc == 99 else ' (concrete %d)' % sc),
                            harness='C15_lin.cpp')
    return js
