from specs.common import *
import itertools

INFO = {
    'what': 'smt::sat_core::new_eq / new_conj / new_disj / new_at_most_one / new_exct_one on a fresh network, compared with the formula over all total assignments',
    'units': SAT_UNITS,
    'functions': ['smt::sat_core::sat_core', 'new_var', 'new_clause', 'new_eq', 'new_conj', 'new_disj', 'new_at_most_one', 'new_exct_one', 'propagate', 'enqueue',
                  'smt::clause::new_clause', 'smt::clause::propagate', 'smt::to_string(lit)', 'std::sort/std::unordered_map/std::string instantiations reached from them'],
    'assumptions': COMMON_ASSUMPTIONS + ['the driver enumerates every argument shape inside the bound (operator, argument variables incl. the constant, signs, root pre-assignment of the used variables) up to renaming of free variables; the total assignments are symbolic',
                                         'cardinality constructs are compared with the cardinality over DISTINCT argument literals'],
    'outside': 'argument lists longer than the stated n, constructs requested above root level (precondition), product encoding of at-most-one (n>=4) unless a query names it',
}

OPS = {0: 'eq', 1: 'conj', 2: 'disj', 3: 'amo', 4: 'exo'}


def canon_patterns(n):
    """argument variable patterns over {0 (constant), 1,2,3 (free)} up to renaming of the free variables"""
    out = []
    for pat in itertools.product(range(0, n + 1), repeat=n):
        # canonical: free variables appear in order of first occurrence 1,2,3...
        nxt = 1; ok = True
        for v in pat:
            if v == 0: continue
            if v > nxt: ok = False; break
            if v == nxt: nxt += 1
        if ok: out.append(pat)
    return out


def shapes(op, n, twice):
    for pat in canon_patterns(n):
        used = sorted(set(v for v in pat if v > 0))
        for signs in itertools.product((1, 0), repeat=n):
            for pre_used in itertools.product((0, 1, 2), repeat=len(used)):
                pre = [0, 0, 0]
                for v, p in zip(used, pre_used): pre[v - 1] = p
                args = []
                for i in range(4):
                    args += [pat[i], signs[i]] if i < n else [0, 0]
                yield pat, signs, pre, [op, n, twice] + pre + args


def jobs(tier):
    js = []
    def add(op, n, twice, timeout=120, unwind=24):
        for pat, signs, pre, params in shapes(op, n, twice):
            nm = '%s/%s/pre%s%s' % (OPS[op], ''.join(('+' if s else '-') + str(v) for v, s in zip(pat, signs)), ''.join(map(str, pre)), '/twice' if twice else '')
            js.append(Job(nm, 'C13_bool.cpp', 'h_reify', SAT_UNITS, unwind, params=params, timeout=timeout,
                          desc='%s(%s) with root pre-assignment %s of b1..b3 (0 none,1 true,2 false)%s; models symbolic' % (
                              OPS[op], ', '.join(('' if s else '!') + ('FALSE' if v == 0 else 'b%d' % v) for v, s in zip(pat, signs)), pre, '; built twice, second time reversed' if twice else ''),
                          bounds={'args': n, 'unwind': unwind}))
    if tier == 'quick':
        add(0, 2, 1)
        for op in (1, 2, 3, 4):
            add(op, 2, 1)
    else:
        add(0, 2, 1)
        for op in (1, 2, 3, 4):
            add(op, 1, 1); add(op, 2, 1); add(op, 3, 1, timeout=300)
    for op in range(5):
        for ord_ in range(4):
            for signs in ([(1, 1, 1, 1), (1, 0, 1, 0)] if tier == 'quick' else list(itertools.product((1, 0), repeat=4))):
              for sh in range(3):
                js.append(Job('%s/pair/ord%d/%s/shared%d' % (OPS[op], ord_, ''.join(map(str, signs)), sh), 'C13_bool.cpp', 'h_pair', SAT_UNITS, 24, params=[op, ord_] + list(signs) + [sh], timeout=120,
                              desc='%s(x,y) and %s(z,y) sharing y (the variable with index rank %d), argument orders %d, signs %s, first one requested again; models symbolic' % (OPS[op], OPS[op], sh, ord_, signs), bounds={'args': 2}))
    # two constructs of different kinds over the same arguments (cache interference across kinds, one construct reused inside another)
    for opa in range(5):
        for opb in range(5):
            if opa == opb: continue
            for n in (2, 3):
                if n == 3 and (opa == 0 or opb == 0): continue
                for rev in ((0,) if tier == 'quick' else (0, 1)):
                    for signs in ([(1,) * n, (1, 0, 1)[:n]] if tier == 'quick' else list(itertools.product((1, 0), repeat=n))):
                        js.append(Job('cross/%s-%s/n%d/rev%d/%s' % (OPS[opa], OPS[opb], n, rev, ''.join(map(str, signs))), 'C13_bool.cpp', 'h_cross', SAT_UNITS, 80,
                                      params=[opa, opb, n, rev] + list(signs), timeout=180,
                                      desc='%s(args) then %s(args) over the same %d arguments (signs %s, second one %s), first one requested again; models and argument assignments symbolic, auxiliary variables enumerated'
                                      % (OPS[opa], OPS[opb], n, signs, 'reversed' if rev else 'same order'), bounds={'args': n}))
    for op in (3, 4):
        for n in ((4, 5) if tier == 'quick' else (4, 5, 6, 7)):
            js.append(Job('%s/grid/n%d' % (OPS[op], n), 'C13_bool.cpp', 'h_grid', SAT_UNITS, 40 if n <= 5 else 80, params=[op, n], timeout=240, mem=8,
                          desc='%s over %d fresh positive arguments (product / grid encoding); models and argument assignments symbolic' % (OPS[op], n), bounds={'args': n}))
    return js
