from specs.common import *
import specs.C09 as L
import itertools, random, os

INFO = dict(L.INFO)
INFO['what'] = ('lra_theory relation constructors new_lt / new_leq / new_eq / new_geq / new_gt: every requested literal is checked, for ALL grid points (X,Y) and ALL SAT assignments that model the clause database and give each '
                'assertion literal its meaning, to be true exactly when its relation holds - fresh literals, literals shared through the expression / assertion caches, constants returned because root bounds already decide the relation, '
                'requests over variables that are basic in the tableau, cancelling variables, and requests made after bounds were tightened; requesting never changes an earlier bound')
A, POP, ROOT, CHK, REQ = L.A, L.POP, L.ROOT, L.CHK, L.REQ


def jobs(tier):
    seed = int(os.environ.get('VERIF_SEED', '0') or 0)
    rng = random.Random(1357 + seed)
    scs = []
    ks = [(0, 1), (1, 1), (-2, 1), (1, 2)]
    shapes = [(1, 0), (-1, 0), (2, 0), (0, 1), (1, 1), (1, -1), (-1, 1), (2, -1), (-2, -2)]
    # 1. every relation on every shape, twice (second request must be shared or at least equivalent), plus the mirrored relation
    for rel in range(5):
        for (c1, c2) in (shapes if tier != 'quick' else shapes[:6]):
            k = rng.choice(ks)
            scs.append(([(rel, c1, c2, k[0], k[1], 0), (rel, c1, c2, k[0], k[1], 0), (4 - rel, -c1, -c2, -k[0], k[1], 0)], []))
    # 2. cancelling variables
    for rel in range(5):
        scs.append(([(rel, 1, 0, 1, 1, 1), (rel, 1, -1, 0, 1, 2)], []))
    # 3. root bounds first, then deferred requests decided (or not) by them: 1 <= x <= 3, x - y <= 1
    pre = [(3, 1, 0, 1, 1, 0), (1, 1, 0, 3, 1, 0), (1, 1, -1, 1, 1, 0)]
    for rel in range(5):
        for b in ((0, 1, 3, 4) if tier != 'quick' else (1, 3)):
            scs.append((pre + [(rel + 10, 1, 0, b, 1, 0)], [(ROOT, 0, 1), (ROOT, 1, 1), (ROOT, 2, 1), (REQ, 3, 1), (A, 3, 1)]))
        scs.append((pre + [(rel + 10, 0, 1, 2, 1, 0)], [(ROOT, 0, 1), (ROOT, 2, 1), (REQ, 3, 1), (A, 3, 0)]))
    # 4. a request over a variable that became basic: assert 2x + y <= 4 and x + y >= 3 (pivots), then request on x and on y
    for rel in range(5):
        scs.append(([(1, 2, 1, 4, 1, 0), (3, 1, 1, 3, 1, 0), (rel + 10, 1, 0, 1, 1, 0), (rel + 10, 0, 1, 2, 1, 0)], [(ROOT, 0, 1), (ROOT, 1, 1), (REQ, 2, 1), (REQ, 3, 1), (A, 2, 1), (A, 3, 0)]))
    # 5. requests over a derived variable z = new_var(a*x + b*y + k): z is basic in the tableau and its row carries a constant term
    for rel in range(5):
        for t in ((0, 1, 2, 3) if tier != 'quick' else (0, 1)):
            scs.append(([(rel, 1, 0, 5, 1, 100 + t), (rel, 1, 0, 5, 1, 100 + t), (4 - rel, -1, 0, -5, 1, 100 + t)], []))
        scs.append(([(rel, 2, 1, 1, 2, 102)], []))
        # decided (or not) by root bounds 3 <= x <= 4, i.e. 6 <= z <= 7 for z = x + 3
        for b in ((5, 6, 7, 8) if tier != 'quick' else (5, 7)):
            scs.append(([(3, 1, 0, 3, 1, 0), (1, 1, 0, 4, 1, 0), (rel + 10, 1, 0, b, 1, 100)], [(ROOT, 0, 1), (ROOT, 1, 1), (REQ, 2, 1), (A, 2, 1)]))
    js = []
    for i, (rels, h) in enumerate(scs):
        js.append(Job('request%04d' % i, 'C09_lra.cpp', 'h_lra', LRA_UNITS, 100, params=L.scen(rels, h), timeout=240, mem=6,
                      desc=L.fmt(rels, h), bounds={'variables': 2, 'relations': len(rels), 'history': len(h), 'grid': 6}))
    return batch(js, 1)
