from specs.common import *
import itertools, random, os

INFO = {
    'what': 'smt::ov_theory new_var (with and without the exactly-one constraint), allows, new_eq and value on two object variables over a pool of three values, with assume/pop histories on the value literals; "every complete assignment" is a symbolic total assignment of the SAT variables',
    'units': OV_UNITS,
    'functions': ['ov_theory::new_var', 'allows', 'new_eq', 'value', 'propagate', 'push', 'pop', 'sat_core::new_exct_one', 'new_at_most_one', 'new_clause', 'assume', 'pop'],
    'assumptions': COMMON_ASSUMPTIONS + ['domains (all non-empty subsets of 3 values for both variables), the enforce-exactly-one flags and the history are concrete per query; the SAT assignment and the chosen pair of values are symbolic'],
    'outside': 'more than two object variables or three values, value listeners, the new_var(lits, vals) overload',
}


def scen(d1, e1, d2, e2, hist):
    p = [d1, e1, d2, e2, len(hist)]
    for h in hist: p += list(h)
    return p


def jobs(tier):
    seed = int(os.environ.get('VERIF_SEED', '0') or 0)
    rng = random.Random(99 + seed)
    scs = []
    doms = range(1, 8)
    hists = [[], [(0, 0, 0, 1), (0, 1, 0, 1), (1, 0, 0, 0), (1, 0, 0, 0)], [(0, 0, 1, 0), (0, 0, 2, 0), (1, 0, 0, 0)], [(0, 1, 2, 1), (0, 0, 2, 0), (1, 0, 0, 0), (0, 0, 0, 1)]]
    for d1 in doms:
        for d2 in doms:
            if tier == 'quick' and d1 > d2: continue  # symmetric in quick
            for (e1, e2) in ((1, 1),) if tier == 'quick' else ((1, 1), (1, 0), (0, 0)):
                hs = [rng.choice(hists[1:])] if tier == 'quick' else hists
                for h in hs:
                    scs.append((d1, e1, d2, e2, h))
    js = []
    for i, (d1, e1, d2, e2, h) in enumerate(scs):
        js.append(Job('dom%s-%s/enf%d%d/%04d' % (format(d1, '03b'), format(d2, '03b'), e1, e2, i), 'C14_ov.cpp', 'h_ov', OV_UNITS, 100, params=scen(d1, e1, d2, e2, h), timeout=240,
                      desc='domains %s and %s of the 3-value pool, exactly-one enforced: %d/%d, history %s' % (format(d1, '03b'), format(d2, '03b'), e1, e2, h),
                      bounds={'values': 3, 'variables': 2, 'history': len(h)}))
    big = [Job('large-domain/n%d' % n, 'C14_ov.cpp', 'h_big', OV_UNITS, 100, params=[n], timeout=300, mem=8,
               desc='one object variable over %d values (grid encoding of exactly-one): exactly one value in every model, choosing a value leaves it alone in the domain' % n, bounds={'values': n})
           for n in ((4, 5) if tier == 'quick' else (4, 5, 6, 7))]
    return big + batch(js, 4)
